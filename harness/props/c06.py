"""C06 — union/intersection map arithmetic folds exactly the inputs valid at each pixel."""
import gen
import translate_ops

PID = 'C06'
RULE = ("for each of the 16 named operations and the two ufunc_* forms: 2-4 maps (and a few histories with 255-300 tiny maps) of one numeric dtype (every dtype, "
        "default / zero / custom sentinels, possibly different per map) or wide masks of one width, filled with "
        "values of both signs and zero on coverage sets that are disjoint / nested / partially overlapping and grown "
        "in different orders, are combined; the result's dense values, valid set, dtype, sentinel and layout are "
        "compared with the Lean model, and the inputs are re-read afterwards; the operation table the model uses is "
        "regenerated from /repo on every run (translate_ops.py) and its neutrality obligations re-proved; "
        "non-trivial = some pixel valid in a strict subset of the inputs")
ASSUMPTIONS = ["float values are dyadic and every operation issued is exact in the map precision (else discarded)",
               "lists mix dtypes only among integers of one signedness (numpy's promoted type is then an integer type "
               "and narrowing to the first map's dtype is a wrap); float/integer and signed/unsigned mixes are not generated"]
TRUSTED = ["translate_ops.py: records the arguments the public wrappers pass to _apply_operation by calling them "
           "with the callee replaced by a recorder (no parsing of expressions)"]

NAMES = ['sum_union', 'sum_intersection', 'product_union', 'product_intersection', 'or_union', 'or_intersection',
         'and_union', 'and_intersection', 'xor_union', 'xor_intersection', 'max_union', 'max_intersection',
         'min_union', 'min_intersection', 'divide_intersection', 'floor_divide_intersection',
         'ufunc_union', 'ufunc_intersection']
INT_ONLY = {'or_union', 'or_intersection', 'and_union', 'and_intersection', 'xor_union', 'xor_intersection',
            'floor_divide_intersection'}


def translate():
    return translate_ops.translate()


def _pow2_divisors(rng, ln):
    """divisors: powers of two so that the quotient stays exact"""
    toks = ln.split()
    for i, t in enumerate(toks):
        if t.startswith('vals='):
            toks[i] = 'vals=' + ','.join(rng.choice(['1', '2', '-2', '4', '1^1', '-1']) for _ in t[5:].split(','))
        elif t.startswith('val='):
            toks[i] = 'val=' + rng.choice(['1', '2', '-2', '4', '1^1'])
    return ' '.join(toks)


def many_maps_history(rng, forced=None):
    """2..N with N LARGE: 255-300 tiny maps sharing a few pixels (a per-pixel input counter that is too narrow
    wraps at 256: seeded change C06d)."""
    n = rng.choice([255, 256, 256, 257, 300, 300])
    name = rng.choice(['sum_intersection', 'or_intersection', 'max_intersection', 'min_intersection',
                       'xor_intersection', 'sum_union', 'and_intersection', 'sum_intersection'])
    dt = rng.choice(['i8', 'i4', 'i8'])
    sent = rng.choice(['default', '0'])
    if forced:
        n, name, sent = forced
    cfgs = [gen.MapCfg('m%d' % i, 'plain', 0, rng.choice([0, 1]) if i == 0 else 0, dtype=dt, sentinel=sent)
            for i in range(n)]
    for c in cfgs:
        c.spord = cfgs[0].spord
    c0 = cfgs[0]
    common = rng.sample(range(c0.npix), 3)
    h = [c.line() for c in cfgs]
    for i, c in enumerate(cfgs):
        pix = list(common)
        if rng.random() < 0.3:
            pix.append(rng.randrange(c0.npix))
        if i == n - 1 and rng.random() < 0.5 and not forced:
            pix = pix[1:]                       # one common pixel missing from the LAST map only
        pix = sorted(set(pix))
        h.append('upd %s op=replace pix=%s vals=%s' % (c.name, ','.join(map(str, pix)),
                                                        ','.join(str(rng.randint(-3, 3)) for _ in pix)))
    h.append('mop r=res name=%s maps=%s' % (name, ','.join(c.name for c in cfgs)))
    h += ['info res', 'state res', 'vals res', 'valid res', 'state m0', 'state m%d' % (n - 1)]
    return h


def histories(rng, tier):
    n = 500 if tier == 'quick' else 3000
    out = [many_maps_history(rng, f) for f in [(256, 'sum_intersection', 'default'), (300, 'max_intersection', 'default')] +
           [None] * (4 if tier == 'quick' else 18)]
    for _ in range(n):
        name = rng.choice(NAMES)
        kinds = ['int', 'int', 'wide'] if name in INT_ONLY else ['int', 'flt', 'flt', 'wide']
        if name.startswith('divide') or name.startswith('ufunc') or name.startswith('floor'):
            kinds = [k for k in kinds if k != 'wide']
        if rng.random() < 0.05:
            kinds = ['int', 'flt', 'rec']                   # record maps must be rejected
        c0 = gen.rand_cfg(rng, kinds=kinds, max_npix=768, name='m0')
        c0.covpix = []
        k = rng.choice([2, 2, 3, 4])
        cfgs = [c0]
        # a list MIXING integer widths of one signedness (numpy folds in the promoted type and narrows to the
        # first map's dtype on store: seeded change C06e narrowed the operands instead)
        mixed = (c0.kind == 'plain' and c0.is_int and rng.random() < 0.2 and
                 name.split('_')[0] in ('min', 'max', 'sum', 'product', 'or', 'and', 'xor', 'floor'))
        for i in range(1, k):
            ci = gen.MapCfg('m%d' % i, c0.kind, c0.covord, c0.spord, dtype=c0.dtype, sentinel=c0.sentinel,
                            maxbits=c0.maxbits, fields=c0.fields, primary=c0.primary)
            if mixed:
                ci.dtype = rng.choice([d for d in gen.INT_DTYPES if d[0] == c0.dtype[0]])
                ci.sentinel = rng.choice(['default', '0'])
            if c0.kind == 'plain' and rng.random() < 0.3:
                if c0.is_int:
                    ci.sentinel = rng.choice(['default', '0', '7'])
                elif c0.is_flt:
                    ci.sentinel = rng.choice(['default', '-9999'])
            cfgs.append(ci)
        h = [c.line() for c in cfgs]
        base = rng.sample(range(c0.ncov), min(c0.ncov, 5))
        first_lines = []
        for c in cfgs:
            if c is not c0 and first_lines and name.endswith('_intersection') and rng.random() < 0.6:
                # the same pixels as the first map, fresh values: a large common valid set for intersections
                for ln0 in first_lines:
                    toks = ln0.split()
                    toks[1] = c.name
                    for i, t in enumerate(toks):
                        if t.startswith('vals='):
                            toks[i] = 'vals=' + ','.join(c.val(rng) for _ in t[5:].split(','))
                        elif t.startswith('val='):
                            toks[i] = 'val=' + c.val(rng)
                    ln = ' '.join(toks)
                    if 'divide' in name and c.is_flt:
                        ln = _pow2_divisors(rng, ln)
                    h.append(ln)
                continue
            rel = rng.choice(['same', 'same', 'sub', 'disjoint', 'any', 'empty'])
            focus = {'same': base[:3], 'sub': base[:1], 'disjoint': base[3:] or base[:1], 'empty': [],
                     'any': rng.sample(range(c.ncov), min(c.ncov, rng.randint(1, 4)))}[rel]
            focus = list(focus)
            rng.shuffle(focus)
            if not focus:
                continue
            for _ in range(rng.randint(1, 4)):
                ln = gen.upd_line(rng, c, focus=focus)
                if 'divide' in name and c.name != 'm0' and c.is_flt:
                    ln = _pow2_divisors(rng, ln)
                h.append(ln)
                if c is c0:
                    first_lines.append(ln)
        if mixed:
            # values of the wider maps that do NOT fit the first map's dtype
            b0 = gen.BITS[c0.dtype]
            for i, ln in enumerate(h):
                t = ln.split()
                if t[0] != 'upd' or t[1] == 'm0':
                    continue
                ci = next(c for c in cfgs if c.name == t[1])
                if gen.BITS[ci.dtype] <= b0:
                    continue
                big = [2 ** b0 + rng.randint(0, 12), 2 ** (b0 - 1) + rng.randint(0, 5)]
                if ci.dtype[0] == 'i':
                    big += [-(2 ** b0) - rng.randint(1, 12), -(2 ** (b0 - 1)) - rng.randint(1, 5)]
                for j, x in enumerate(t):
                    if x.startswith('vals='):
                        vs = x[5:].split(',')
                        t[j] = 'vals=' + ','.join(str(rng.choice(big)) if rng.random() < 0.5 else v for v in vs)
                    elif x.startswith('val=') and rng.random() < 0.5:
                        t[j] = 'val=%d' % rng.choice(big)
                h[i] = ' '.join(t)
        names = ','.join(c.name for c in cfgs)
        if rng.random() < (0.45 if 'divide' in name else 0.1):
            # the SAME map object more than once in the list (first map again later; a later map twice): the fold
            # is over list POSITIONS, not over distinct objects (seeded change C06h)
            lst = [c.name for c in cfgs]
            lst.insert(rng.randint(1, len(lst)), rng.choice([lst[0], lst[0], lst[-1]]))
            names = ','.join(lst)
        if name.startswith('ufunc_'):
            uf = rng.choice(['add', 'multiply', 'fmax', 'fmin', 'subtract'])
            fv = c0.val(rng) if c0.kind == 'plain' else '0'
            h.append('mop r=res name=%s maps=%s ufunc=%s filler=%s' % (name, names, uf, fv))
        else:
            h.append('mop r=res name=%s maps=%s' % (name, names))
        h += ['info res', 'state res', 'vals res', 'valid res']
        for c in cfgs:
            h.append('state %s' % c.name)
        out.append(h)
    return out


def nontrivial(h):
    return any(ln.startswith('mop') for ln in h) and sum(1 for ln in h if ln.startswith('upd')) >= 2
