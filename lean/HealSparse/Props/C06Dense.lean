/-
  C06 at the driver level: the protocol against the dense interpreter, for histories that mix
  the plain lines (`cfg` / `upd` / `updr` / `set` / `get` / `vals`, Props/C01 `reachable_dense`)
  with the MULTI-MAP and RESOLUTION family (Lemmas/ApiDenseMulti.lean):

    `mop`  — the sixteen named union / intersection operations and `ufunc_union` /
             `ufunc_intersection` over a list of maps: per pixel the fold, in list order, of the
             inputs VALID at the pixel (each judged by its own sentinel), union / intersection
             validity, header = the first map's with the output kind;
    `upg`  — `upgrade`: every fine pixel reads its parent;
    `deg`  — `degrade`: every reduction (`mean` `median` `std` `max` `min` `sum` `prod` `wmean`,
             integer / wide-mask `and` `or`), with and without a weight map, at or above the
             coverage order (every coarse pixel = the reduction over its children, which masks
             the invalid ones) and below it (both maps re-housed first; a coarse pixel without
             valid child is blank); errors from the headers, the arguments and the dense values;
    `fracdet` — `fracdet_map`: the exact fraction of valid children of every coarse pixel.

  HEADLINE `reachable_dense_multi`: after any such history the world of the protocol and the
  dense world agree (same names, same headers, `m.abs p = d.f p` everywhere), and every line is
  answered alike (`reachable_dense_multi_answers`).

  SIDE CONDITION `settledFrom` (decided by running the DENSE interpreter alone).  The statement
  without it is FALSE — counterexamples (A), (B), (C), (D) below: `_apply_operation` returns
  `make_empty_like(first)` as soon as the combined COVERAGE is empty, before it looks at any
  cell; a coverage pixel that is allocated but holds no valid pixel cannot be told from an
  unallocated one in the dense view; so two histories with identical dense views are answered
  differently.  The condition excludes exactly the `mop` lines whose inputs have an EMPTY
  combined valid set and for which the two paths could differ (a guard of the main path fires,
  or the first map is bit-packed with no requested output type).  Likewise `degrade` at or
  above the coverage order reduces the (all blank) children of a covered-but-unset coarse pixel
  — `sum` gives 0 and `prod` gives 1 there, VALID pixels, where an unallocated coverage pixel
  gives the sentinel (the real library does the same); the condition asks of such a `deg` line
  that the reduction of a blank group be the blank of the result (true of every reduction but
  `sum` / `prod`), or that every coarse pixel have a valid child, or that the call be refused.
  Below the coverage order `deg` needs no condition.  Histories without `mop` and `deg` lines
  satisfy it trivially (`reachable_dense_upg`).
-/
import HealSparse.Lemmas.ApiDenseMulti
namespace HS
namespace C06

open ApiDense ApiDenseMulti

/-- **the protocol refines the dense interpreter on the multi-map / resolution family**: after a
    history of plain lines, `mop` lines and `upg` lines — each decided by the dense views — the
    world the protocol reaches and the dense world agree: the same names, the same headers, every
    map reads at every pixel what the dense array holds.

    (Intended statement without `hs`: FALSE, see the counterexamples at the end of the file.) -/
theorem reachable_dense_multi (lines : List String) (h : ∀ l ∈ lines, lineOk l = true)
    (hs : settledFrom [] lines = true) : Rel (runLines lines) (drunM lines) :=
  rel_runLinesM lines h hs

/-- … hence any further line of the family is answered by the protocol as by the dense
    interpreter -/
theorem reachable_dense_multi_answer (lines : List String) (h : ∀ l ∈ lines, lineOk l = true)
    (hs : settledFrom [] lines = true) (q : String) (hq : lineOk q = true)
    (hsq : settled (drunM lines) q = true) :
    (step (runLines lines) q).2 = (dstepM (drunM lines) q).2 :=
  (rel_stepM (rel_runLinesM lines h hs) (Good.runLines lines) hq hsq).2

/-- … and every answer ALONG the history agrees -/
theorem reachable_dense_multi_answers (lines : List String) (h : ∀ l ∈ lines, lineOk l = true)
    (hs : settledFrom [] lines = true) (k : Nat) (hk : k < lines.length) :
    (step (runLines (lines.take k)) lines[k]).2 = (dstepM (drunM (lines.take k)) lines[k]).2 :=
  reachable_dense_multi_answer (lines.take k) (fun l hl => h l (List.mem_of_mem_take hl))
    (settledFrom_take hs k hk).1 lines[k] (h _ (List.getElem_mem hk)) (settledFrom_take hs k hk).2

/-- the map-level reading: a name bound after the history is bound on the dense side to an array
    with the same header that holds `m.abs p` at every pixel -/
theorem reachable_dense_multi_map (lines : List String) (h : ∀ l ∈ lines, lineOk l = true)
    (hs : settledFrom [] lines = true) {n : String} {m : MapObj}
    (hg : (runLines lines).get? n = some m) :
    ∃ d, (drunM lines).get? n = some d ∧ m.WF ∧ m.view = none ∧ m.covord = d.covord ∧
      m.spord = d.spord ∧ m.kind = d.kind ∧ m.sent = d.sent ∧ ∀ p, p < m.npix → m.abs p = d.f p := by
  have hR := rel_runLinesM lines h hs
  have hm := hR.maps n
  rw [hR.get?_eq n] at hg
  rw [hg] at hm
  cases hd : (drunM lines).get? n with
  | none => rw [hd] at hm; exact hm.elim
  | some d =>
    rw [hd] at hm
    exact ⟨d, rfl, hm.wf, hm.view, hm.covord, hm.spord, hm.kind, hm.sent, hm.abs⟩

/-- a history without `mop` and `deg` lines (plain lines and `upg`) needs no side condition -/
theorem reachable_dense_upg (lines : List String) (h : ∀ l ∈ lines, lineOk l = true)
    (hn : ∀ l ∈ lines, ∀ rest, lineToks l ≠ "mop" :: rest ∧ lineToks l ≠ "deg" :: rest) :
    Rel (runLines lines) (drunM lines) := by
  apply rel_runLinesM lines h
  have key : ∀ (ls : List String) (D : DenseWorld),
      (∀ l ∈ ls, ∀ rest, lineToks l ≠ "mop" :: rest ∧ lineToks l ≠ "deg" :: rest) →
      settledFrom D ls = true := by
    intro ls
    induction ls with
    | nil => intro _ _; rfl
    | cons l ls ih =>
      intro D hn
      simp only [settledFrom, Bool.and_eq_true]
      exact ⟨settled_of_not_mop D (fun r => (hn l List.mem_cons_self r).1)
          (fun r => (hn l List.mem_cons_self r).2),
        ih _ fun l' h' => hn l' (List.mem_cons_of_mem _ h')⟩
  exact key lines [] hn

/-! ### a history (the hypotheses are satisfiable; the dense interpreter answers what the
    protocol answers)

Three `int64` maps with DIFFERENT sentinels (default `-2^63`, `-5`, `7`) at orders 0 / 1 (48
pixels, 4 per coverage pixel), filled in DIFFERENT coverage orders (`a`: 10, 0, 5; `b`: 5, 0;
`c`: 0, 10, 5); `sum_union` and `max_intersection`; a `ufunc_union` with a caller-supplied start
value; an update that GROWS the union into coverage pixel 7, which no input covers; an
`upgrade`; reads after every stage; refused calls (`err …`) included.  Then a map `e` at orders
1 / 2 with a float weight map `wt` valid on the same pixels: `degrade` at the coverage order
(`mean`, `wmean`, `or`, `std`) and BELOW it (`sum`, `wmean`: both maps are re-housed), refused
calls (finer target, unknown reduction, `wmean` without weights); `fracdet_map`. -/

/-- the answers of the protocol along a history -/
def protoAnswers (lines : List String) : List String :=
  (lines.foldl (fun (acc : World × List String) l =>
    let r := step acc.1 l; (r.1, acc.2 ++ [r.2])) ({}, [])).2

/-- the answers of the dense interpreter along a history -/
def denseAnswers (lines : List String) : List String :=
  (lines.foldl (fun (acc : DenseWorld × List String) l =>
    let r := dstepM acc.1 l; (r.1, acc.2 ++ [r.2])) ([], [])).2

def exHistory : List String := [
  "cfg a kind=plain dtype=i8 covord=0 spord=1",
  "cfg b kind=plain dtype=i8 covord=0 spord=1 sentinel=-5",
  "cfg c kind=plain dtype=i8 covord=0 spord=1 sentinel=7",
  "upd a pix=40,3,20 vals=1,2,3",
  "upd b pix=20,21,3 vals=10,20,30",
  "upd c pix=3,40,20 vals=100,200,300",
  "upd c pix=41 val=7",                                  -- writes c's own sentinel: stays unset
  "mop maps=a,b,c name=sum_union r=u",
  "mop maps=a,b,c name=max_intersection r=i",
  "get u pix=3,20,21,40,41,30",
  "get i pix=3,20,21,40,41,30",
  "get u pix=3,20,21,40,41,30 vm=1",
  "mop maps=a,b name=ufunc_union ufunc=subtract filler=100 r=s",
  "get s pix=3,20,21,40",
  "upd u pix=30 val=4",                                  -- grows `u` into coverage pixel 7
  "get u pix=30,31,3",
  "upg u ord=2 r=v",
  "get v pix=120,123,12,15,80,84,191",
  "upg v ord=1 r=x",                                     -- refused: not finer
  "mop maps=a name=sum_union r=y",                       -- refused: one map
  "mop maps=a,zz name=sum_union r=y",                    -- no such map
  "mop maps=a,v name=sum_union r=y",                     -- refused: different orders
  "vals i",
  "cfg e kind=plain dtype=i8 covord=1 spord=2",
  "cfg wt kind=plain dtype=f8 covord=1 spord=2",
  "upd e pix=0,1,2,5,17,100 vals=4,6,8,3,5,7",
  "upd wt pix=0,1,2,5,17,100 vals=1,2,1,4,1,2",
  "deg e ord=1 red=mean r=d1",
  "get d1 pix=0,1,4,6,25,30",
  "deg e ord=1 red=wmean w=wt r=d2",
  "get d2 pix=0,1,4,6,25,30",
  "deg e ord=0 red=sum r=d3",                            -- below the coverage order
  "vals d3",
  "deg e ord=0 red=wmean w=wt r=d4",
  "vals d4",
  "deg e ord=1 red=or r=d5",
  "get d5 pix=0,1,4,6",
  "deg e ord=1 red=std r=d6",
  "get d6 pix=0,1,4,6",
  "deg e ord=3 red=sum r=d7",                            -- refused: finer
  "deg e ord=1 red=bogus r=d7",                          -- refused: unknown reduction
  "deg e ord=1 red=wmean r=d7",                          -- refused: no weights
  "deg e ord=1 red=wmean w=a r=d7",                      -- refused: weights of another kind
  "fracdet e r=fd ord=1",
  "get fd pix=0,1,4,6",
  "fracdet e r=fd ord=0",                                -- refused: below the coverage order
  "fracdet e ord=1"                                      -- malformed: no result name
]

/-! every line is a plain or family line, every line is decided by the dense views, and the two
    interpreters give the same answers along the whole history -/
#guard exHistory.all lineOk
#guard settledFrom [] exHistory
#guard protoAnswers exHistory == denseAnswers exHistory

/-! … and the answers are the expected ones: sums over the valid inputs only (pixel 21: `b`
    alone; pixel 41: `c` holds its own sentinel there, so nothing), the maximum where all three
    are valid, `100 - a - b` for the seeded `subtract`, the grown pixel, the parents' values
    after `upgrade` -/
#guard (protoAnswers exHistory).take 12 ==
  ["ok", "ok", "ok", "ok", "ok", "ok", "ok", "ok", "ok",
   "132,313,20,201,-9223372036854775808,-9223372036854775808",
   "100,300,-9223372036854775808,-9223372036854775808,-9223372036854775808,-9223372036854775808",
   "111100"]
#guard ((protoAnswers exHistory).drop 12).take 10 ==
  ["ok", "68,87,80,99", "ok", "4,-9223372036854775808,132", "ok",
   "4,4,132,132,313,20,-9223372036854775808", "err ValueError", "err RuntimeError", "bad-op:no-such-map",
   "err RuntimeError"]

/-! ### the counterexamples: why the side condition is there

In each pair the two histories differ ONLY in whether coverage pixel 0 of one input is allocated
(`covpix=0`) — no pixel is set in it — so all dense views (`vals`) and headers coincide; the
`mop` line, resp. the `upg` line after it, is answered differently.  The dense interpreter
cannot follow both; `settledFrom` is false for all six histories. -/

/-- (A) intersection: `b` holds the value `-5`, which is `a`'s sentinel.  With an empty combined
    coverage the call returns an empty map; once `a` covers the pixel (still unset) the guard
    of the exact model fires (`inexact`: the model makes no claim) -/
def cexA (covpix : String) : List String := [
  "cfg a kind=plain dtype=i8 covord=0 spord=1 sentinel=-5 covpix=" ++ covpix,
  "cfg b kind=plain dtype=i8 covord=0 spord=1",
  "upd b pix=3 val=-5",
  "vals a", "vals b",
  "mop maps=a,b name=sum_intersection r=i"]

#guard (cexA "_").all lineOk && (cexA "0").all lineOk
#guard ((protoAnswers (cexA "_")).take 5 == (protoAnswers (cexA "0")).take 5)
#guard (protoAnswers (cexA "_")).getLast? == some "ok"
#guard (protoAnswers (cexA "0")).getLast? == some "inexact"
#guard !settledFrom [] (cexA "_") && !settledFrom [] (cexA "0")

/-- (B) union, float result: the sentinel `2^62 + 1` of the integer input is not exact in
    float64; it sits in the overflow block of `b`'s storage, which the conversion guard looks
    at only on the main path -/
def cexB (covpix : String) : List String := [
  "cfg a kind=plain dtype=f8 covord=0 spord=1",
  "cfg b kind=plain dtype=i8 covord=0 spord=1 sentinel=4611686018427387905 covpix=" ++ covpix,
  "vals a", "vals b",
  "mop maps=a,b name=sum_union r=u"]

#guard (cexB "_").all lineOk && (cexB "0").all lineOk
#guard ((protoAnswers (cexB "_")).take 4 == (protoAnswers (cexB "0")).take 4)
#guard (protoAnswers (cexB "_")).getLast? == some "ok"
#guard (protoAnswers (cexB "0")).getLast? == some "inexact"
#guard !settledFrom [] (cexB "_") && !settledFrom [] (cexB "0")

/-- (C) bit-packed inputs, no `inexact` involved (the REAL library behaves the same:
    `ufunc_union([a, b], np.bitwise_or)` of two bit-packed maps is a bit-packed map when the
    combined coverage is empty and a plain boolean map otherwise): both calls answer `ok`, but
    the result is bit-packed in one world and plain boolean in the other — `upgrade` of it is
    refused (`err NotImplementedError`) resp. accepted -/
def cexC (covpix : String) : List String := [
  "cfg a kind=packed covord=0 spord=2 covpix=" ++ covpix,
  "cfg b kind=packed covord=0 spord=2",
  "vals a", "vals b",
  "mop maps=a,b name=ufunc_union ufunc=bitwise_or filler=F r=u",
  "vals u",
  "upg u ord=3 r=v"]

#guard (cexC "_").all lineOk && (cexC "0").all lineOk
#guard ((protoAnswers (cexC "_")).take 6 == (protoAnswers (cexC "0")).take 6)
#guard (protoAnswers (cexC "_")).getLast? == some "err NotImplementedError"
#guard (protoAnswers (cexC "0")).getLast? == some "ok"
#guard !settledFrom [] (cexC "_") && !settledFrom [] (cexC "0")

/-- (D) `degrade(sum)` at the coverage order (the REAL library behaves the same): coverage pixel
    1 is allocated but holds no valid pixel; its coarse pixel comes back as the VALID value 0
    (`nansum` of nothing), where the unallocated one comes back unset -/
def cexD (covpix : String) : List String := [
  "cfg a kind=plain dtype=f8 covord=0 spord=1 covpix=" ++ covpix,
  "upd a pix=0 val=3",
  "vals a",
  "deg a ord=0 red=sum r=s",
  "get s pix=0,1,2"]

#guard (cexD "_").all lineOk && (cexD "1").all lineOk
#guard ((protoAnswers (cexD "_")).take 4 == (protoAnswers (cexD "1")).take 4)
#guard (protoAnswers (cexD "_")).getLast? ==
  some "3,-1637499999999999923489519697920,-1637499999999999923489519697920"
#guard (protoAnswers (cexD "1")).getLast? == some "3,0,-1637499999999999923489519697920"
#guard !settledFrom [] (cexD "_") && !settledFrom [] (cexD "1")
/-! the same history with `mean` is decided, and answered alike on both sides -/
#guard settledFrom [] ((cexD "1").map fun l => l.replace "red=sum" "red=mean")
#guard protoAnswers ((cexD "1").map fun l => l.replace "red=sum" "red=mean") ==
  denseAnswers ((cexD "1").map fun l => l.replace "red=sum" "red=mean")

end C06
end HS
