/-
  C15 at the API level — helper definitions and lemmas.

  `apiUpgrade` (Model/ApiRes.lean), the fracdet map the driver builds (`opFracdet`,
  Model/Dispatch.lean), and the interplay with `apiDegrade` (Lemmas/ApiDegrade.lean):

    * `apiUpgrade_eq`: the flat form of `upgrade` (which error when, else `upgradeMap`), and the
      dense view of the result;
    * a small exact-dyadic toolkit (`dyNorm` is canonical; `dyAdd`, `dySum`, `mkRat` on powers of
      two) and what the nan-reductions give on `k = 4^j` copies of one value;
    * `fracdetMap m ord` = the object `fracdet_map` returns; its dense view as the exact dyadic
      `count / 4^(spord-ord)`.

  The property theorems are in Props/C15.lean (section "API level").
-/
import HealSparse.Lemmas.WFWorld
import HealSparse.Lemmas.ApiDegrade
namespace HS
namespace ApiResolution

open WFApi ApiDegrade

/-! ### `upgrade` -/

/-- the kinds `upgrade` refuses: wide masks and bit-packed maps -/
def upgradeRefuses : Kind → Bool
  | .wide _ => true
  | .packed => true
  | _ => false

/-- **`apiUpgrade` in flat form**: `ValueError` unless the target order is strictly finer, then
    `NotImplementedError` for wide masks and bit-packed maps, else `np.repeat` of the storage -/
theorem apiUpgrade_eq (m : MapObj) (ordOut : Nat) :
    apiUpgrade m ordOut =
      if ordOut ≤ m.spord then .error .value
      else if upgradeRefuses m.kind then .error .notImpl
      else .ok { m with spord := ordOut, cache := none,
                        st := upgradeMap m.c m.vc m.st (2 * (ordOut - m.spord)) } := by
  unfold apiUpgrade
  simp only [bind, Except.bind, pure, Except.pure, throw, throwThe, MonadExceptOf.throw, ge_iff_le]
  by_cases h : ordOut ≤ m.spord
  · simp [h]
  · simp only [h, ↓reduceIte]
    cases hk : m.kind <;> simp [upgradeRefuses]

/-- number of bits by which pixel numbers are shifted between the two orders -/
def upBits (m : MapObj) (ordOut : Nat) : Nat := 2 * (ordOut - m.spord)

/-- what a successful `upgrade` returns -/
theorem apiUpgrade_ok {m m' : MapObj} {ordOut : Nat} (hr : apiUpgrade m ordOut = .ok m') :
    m.spord < ordOut ∧ upgradeRefuses m.kind = false ∧
    m' = { m with spord := ordOut, cache := none,
                  st := upgradeMap m.c m.vc m.st (upBits m ordOut) } := by
  rw [apiUpgrade_eq] at hr
  split at hr
  · cases hr
  · rename_i h1
    split at hr
    · cases hr
    · rename_i h2
      cases hr
      exact ⟨by omega, by simpa using h2, rfl⟩

/-- dense view, layout and coverage of the upgraded map -/
theorem upgrade_view {m : MapObj} (h : m.WF) {ordOut : Nat} (hlt : m.spord < ordOut) :
    Inv (cfgOf m.covord ordOut) m.vc (upgradeMap m.c m.vc m.st (upBits m ordOut)) ∧
    (∀ x, x < (cfgOf m.covord ordOut).npix →
      HS.abs (cfgOf m.covord ordOut) m.vc (upgradeMap m.c m.vc m.st (upBits m ordOut)) x
        = m.abs (x >>> upBits m ordOut)) ∧
    (∀ k, k < m.c.ncov →
      covered (cfgOf m.covord ordOut) (upgradeMap m.c m.vc m.st (upBits m ordOut)) k
        = covered m.c m.st k) := by
  have := h.2.upgrade_spec' (upBits m ordOut)
  unfold upBits at this ⊢
  rw [show ucfg m.c (2 * (ordOut - m.spord)) = cfgOf m.covord ordOut from
    ucfg_cfgOf h.1 (Nat.le_of_lt hlt)] at this
  exact this

/-! ### exact dyadic arithmetic: `dyNorm` is canonical; the nan-reductions on `k` copies of one value -/

/-- the two pairs denote the same dyadic number -/
def dyEq (a b : Int × Nat) : Prop := a.1 * 2 ^ b.2 = b.1 * 2 ^ a.2

theorem dyNorm_spec (n : Int) (e : Nat) : (dyNorm n e).1 * 2 ^ e = n * 2 ^ (dyNorm n e).2 := by
  induction e generalizing n with
  | zero => simp [dyNorm]
  | succ e ih =>
    rw [dyNorm]
    split
    · rename_i h
      have h2 : n % 2 = 0 := by simpa using h
      have hn : n / 2 * 2 = n := Int.ediv_mul_cancel (Int.dvd_of_emod_eq_zero h2)
      have := ih (n / 2)
      rw [Int.pow_succ, ← Int.mul_assoc, this]
      grind
    · rfl

theorem dyNorm_canon {a b : Int × Nat} (h : dyEq a b) : dyNorm a.1 a.2 = dyNorm b.1 b.2 := by
  unfold dyEq at h
  rw [← dyNorm_mul_pow a.1 a.2 b.2, h, Nat.add_comm, dyNorm_mul_pow]

theorem pow_split {x e : Nat} (h : x ≤ e) : (2 : Int) ^ (e - x) * 2 ^ x = 2 ^ e := by
  rw [← Int.pow_add, Nat.sub_add_cancel h]

/-- `dyAdd` in canonical form -/
theorem dyAdd_eq (a b : Int × Nat) :
    dyAdd a b = dyNorm (a.1 * 2 ^ b.2 + b.1 * 2 ^ a.2) (a.2 + b.2) := by
  unfold dyAdd dyAlign
  simp only
  apply dyNorm_canon (a := (_, _)) (b := (_, _))
  unfold dyEq
  simp only
  have h1 := pow_split (Nat.le_max_left a.2 b.2)
  have h2 := pow_split (Nat.le_max_right a.2 b.2)
  rw [Int.pow_add]
  generalize (2 : Int) ^ (max a.2 b.2 - a.2) = P at *
  generalize (2 : Int) ^ (max a.2 b.2 - b.2) = R at *
  generalize (2 : Int) ^ (max a.2 b.2) = T at *
  generalize (2 : Int) ^ a.2 = Q at *
  generalize (2 : Int) ^ b.2 = S at *
  grind

/-- the sum of `k` copies of `v = n/2^e`, started from any representation of `i·v` -/
theorem foldl_dyAdd_replicate (n : Int) (e : Nat) (k : Nat) (hk : 0 < k) (acc : Int × Nat) (i : Nat)
    (hacc : dyEq acc (i * n, e)) :
    (List.replicate k (n, e)).foldl dyAdd acc = dyNorm ((i + k : Nat) * n) e := by
  induction k generalizing acc i with
  | zero => omega
  | succ k ih =>
    rw [List.replicate_succ, List.foldl_cons]
    have hstep : dyEq (dyAdd acc (n, e)) (((i + 1 : Nat) : Int) * n, e) := by
      rw [dyAdd_eq]
      have hs := dyNorm_spec (acc.1 * 2 ^ e + n * 2 ^ acc.2) (acc.2 + e)
      unfold dyEq at hacc ⊢
      simp only at hacc hs ⊢
      generalize dyNorm (acc.1 * 2 ^ e + n * 2 ^ acc.2) (acc.2 + e) = r at hs ⊢
      rw [Int.pow_add] at hs
      have hp : (0 : Int) < 2 ^ acc.2 := Int.pow_pos (by decide)
      apply Int.eq_of_mul_eq_mul_right (Int.ne_of_gt hp)
      push_cast
      generalize (2 : Int) ^ acc.2 = A at *
      generalize (2 : Int) ^ e = E at *
      generalize (2 : Int) ^ r.2 = R at *
      grind
    by_cases hk0 : k = 0
    · subst hk0
      simp only [List.replicate_zero, List.foldl_nil]
      rw [dyAdd_eq, ← dyAdd_eq]
      have := dyNorm_canon hstep
      rw [dyAdd_eq] at this ⊢
      rw [dyNorm_idem] at this
      exact this
    · rw [ih (by omega) _ (i + 1) hstep]
      congr 2
      omega

theorem dySum_replicate (n : Int) (e : Nat) (k : Nat) (hk : 0 < k) :
    dySum (List.replicate k (n, e)) = dyNorm ((k : Nat) * n) e := by
  unfold dySum
  have := foldl_dyAdd_replicate n e k hk (0, 0) 0 (by simp [dyEq])
  rw [this]
  simp

theorem dvd_two_pow {g a : Nat} (h : g ∣ 2 ^ a) : ∃ b, b ≤ a ∧ g = 2 ^ b := by
  induction a generalizing g with
  | zero =>
    exact ⟨0, Nat.le_refl _, Nat.dvd_one.1 (by simpa using h)⟩
  | succ a ih =>
    obtain ⟨q, hq⟩ := h
    by_cases hg : g % 2 = 0
    · obtain ⟨g', rfl⟩ : ∃ g', g = 2 * g' := ⟨g / 2, by omega⟩
      have : g' ∣ 2 ^ a := ⟨q, by rw [Nat.pow_succ] at hq; rw [Nat.mul_assoc] at hq; omega⟩
      obtain ⟨b, hb, rfl⟩ := ih this
      exact ⟨b + 1, by omega, by rw [Nat.pow_succ]; omega⟩
    · have hq2 : q % 2 = 0 := by
        have : (g * q) % 2 = 0 := by rw [← hq, Nat.pow_succ]; omega
        rw [Nat.mul_mod] at this
        have hg1 : g % 2 = 1 := by omega
        rw [hg1, Nat.one_mul, Nat.mod_mod] at this
        exact this
      obtain ⟨q', rfl⟩ : ∃ q', q = 2 * q' := ⟨q / 2, by omega⟩
      have : g ∣ 2 ^ a := ⟨q', by
        rw [Nat.pow_succ] at hq
        have : 2 * 2 ^ a = 2 * (g * q') := by rw [Nat.mul_comm 2 (2 ^ a), hq, Nat.mul_left_comm]
        omega⟩
      obtain ⟨b, hb, rfl⟩ := ih this
      exact ⟨b, by omega, rfl⟩

theorem isPow2_two_pow (t : Nat) : isPow2 (2 ^ t) = true := by
  unfold isPow2
  have : 2 ^ t ≠ 0 := Nat.ne_of_gt (Nat.two_pow_pos t)
  simp [Nat.log2_two_pow]

/-- an exact rational with a power-of-two denominator is stored as its canonical dyadic -/
theorem mkRat_two_pow (n : Int) (a : Nat) :
    mkRat n (2 ^ a) = .num (dyNorm n a).1 (dyNorm n a).2 := by
  unfold mkRat
  have hd : (2 ^ a == 0) = false := by
    have : 2 ^ a ≠ 0 := Nat.ne_of_gt (Nat.two_pow_pos a)
    simp
  simp only [hd, Bool.false_eq_true, if_false]
  obtain ⟨b, hb, hg⟩ := dvd_two_pow (Nat.gcd_dvd_right n.natAbs (2 ^ a))
  rw [hg]
  have hdiv : 2 ^ a / 2 ^ b = 2 ^ (a - b) := Nat.pow_div hb (by decide)
  rw [hdiv, isPow2_two_pow, if_pos rfl, Nat.log2_two_pow]
  have hdvd : ((2 ^ b : Nat) : Int) ∣ n := by
    apply Int.ofNat_dvd_left.mpr
    rw [← hg]
    exact Nat.gcd_dvd_left _ _
  have hn : n / ((2 ^ b : Nat) : Int) * 2 ^ b = n := by
    have := Int.ediv_mul_cancel hdvd
    push_cast at this ⊢
    exact this
  have := dyNorm_mul_pow (n / ((2 ^ b : Nat) : Int)) (a - b) b
  rw [hn, Nat.sub_add_cancel hb] at this
  rw [this]

def normVal : Val → Val
  | .num n e => .num (dyNorm n e).1 (dyNorm n e).2
  | v => v

theorem reduce_mean_replicate (v : Int × Nat) (g : Nat) (ws wd : List (Int × Nat)) :
    reduceVals "mean" (List.replicate (2 ^ g) v) ws wd = some (normVal (.num v.1 v.2)) := by
  have hk : 0 < 2 ^ g := Nat.two_pow_pos g
  have h0 : ((List.replicate (2 ^ g) v).length == 0) = false := by
    rw [List.length_replicate]; simp
  show (if ((List.replicate (2 ^ g) v).length == 0) = true then none else
    some (mkRat (dySum (List.replicate (2 ^ g) v)).1
      (2 ^ (dySum (List.replicate (2 ^ g) v)).2 * (List.replicate (2 ^ g) v).length))) = _
  rw [h0, List.length_replicate]
  simp only [Bool.false_eq_true, if_false]
  obtain ⟨n, e⟩ := v
  rw [dySum_replicate n e _ hk, ← Nat.pow_add, mkRat_two_pow]
  have hs := dyNorm_spec (((2 ^ g : Nat) : Int) * n) e
  generalize dyNorm (((2 ^ g : Nat) : Int) * n) e = s at hs ⊢
  have : dyNorm s.1 (s.2 + g) = dyNorm n e := by
    apply dyNorm_canon (a := (s.1, s.2 + g)) (b := (n, e))
    unfold dyEq
    simp only
    rw [hs, Int.pow_add]
    push_cast
    grind
  rw [this]
  rfl

theorem dyMax_self (a : Int × Nat) : dyMax a a = a := by
  unfold dyMax dyLt dyAlign
  simp

theorem dyMin_self (a : Int × Nat) : dyMin a a = a := by
  unfold dyMin dyLt dyAlign
  simp

theorem foldl_idem_replicate {α : Type} (f : α → α → α) (a : α) (hf : f a a = a) (k : Nat) :
    (List.replicate k a).foldl f a = a := by
  induction k with
  | zero => rfl
  | succ k ih => rw [List.replicate_succ, List.foldl_cons, hf, ih]

theorem reduce_max_replicate (v : Int × Nat) (k : Nat) (hk : 0 < k) (ws wd : List (Int × Nat)) :
    reduceVals "max" (List.replicate k v) ws wd = some (.num v.1 v.2) := by
  obtain ⟨k, rfl⟩ : ∃ k', k = k' + 1 := ⟨k - 1, by omega⟩
  show some (Val.ofDy ((List.replicate k v).foldl dyMax v)) = _
  rw [foldl_idem_replicate dyMax v (dyMax_self v)]
  rfl

theorem reduce_min_replicate (v : Int × Nat) (k : Nat) (hk : 0 < k) (ws wd : List (Int × Nat)) :
    reduceVals "min" (List.replicate k v) ws wd = some (.num v.1 v.2) := by
  obtain ⟨k, rfl⟩ : ∃ k', k = k' + 1 := ⟨k - 1, by omega⟩
  show some (Val.ofDy ((List.replicate k v).foldl dyMin v)) = _
  rw [foldl_idem_replicate dyMin v (dyMin_self v)]
  rfl

theorem reduce_sum_replicate (v : Int × Nat) (k : Nat) (hk : 0 < k) (ws wd : List (Int × Nat)) :
    reduceVals "sum" (List.replicate k v) ws wd
      = some (.num (dyNorm ((k : Nat) * v.1) v.2).1 (dyNorm ((k : Nat) * v.1) v.2).2) := by
  show some (Val.ofDy (dySum (List.replicate k v))) = _
  obtain ⟨n, e⟩ := v
  rw [dySum_replicate n e k hk]
  rfl

theorem span_loop_all {α : Type} (p : α → Bool) (l acc : List α) (h : ∀ x ∈ l, p x = true) :
    List.span.loop p l acc = (acc.reverse ++ l, []) := by
  induction l generalizing acc with
  | nil => simp [List.span.loop]
  | cons a l ih =>
    rw [List.span.loop, h a (List.mem_cons_self)]
    simp only
    rw [ih _ (fun x hx => h x (List.mem_cons_of_mem _ hx))]
    simp

theorem dyLe_self (a : Int × Nat) : dyLe a a = true := by
  unfold dyLe dyAlign
  simp

theorem dySort_replicate (v : Int × Nat) (k : Nat) : dySort (List.replicate k v) = List.replicate k v := by
  unfold dySort
  have key : ∀ j i, (List.replicate j v).foldl (fun acc x =>
      let (lo, hi) := acc.span (fun y => dyLe y x)
      lo ++ x :: hi) (List.replicate i v) = List.replicate (i + j) v := by
    intro j
    induction j with
    | zero => intro i; rfl
    | succ j ih =>
      intro i
      rw [List.replicate_succ, List.foldl_cons]
      have hspan : (List.replicate i v).span (fun y => dyLe y v) = (List.replicate i v, []) := by
        unfold List.span
        rw [span_loop_all _ _ _ (fun x hx => by rw [(List.mem_replicate.1 hx).2]; exact dyLe_self v)]
        rfl
      simp only [hspan]
      have : List.replicate i v ++ [v] = List.replicate (i + 1) v := by
        rw [List.replicate_succ']
      rw [this, ih (i + 1)]
      congr 1
      omega
  have := key k 0
  simpa using this

theorem reduce_median_replicate (v : Int × Nat) (g : Nat) (ws wd : List (Int × Nat)) :
    reduceVals "median" (List.replicate (2 ^ (g + 1)) v) ws wd = some (normVal (.num v.1 v.2)) := by
  have hk : 0 < 2 ^ g := Nat.two_pow_pos g
  have hk2 : 2 ^ (g + 1) = 2 * 2 ^ g := by rw [Nat.pow_succ]; omega
  show (if ((List.replicate (2 ^ (g + 1)) v).length == 0) = true then none else
    if ((List.replicate (2 ^ (g + 1)) v).length % 2 == 1) = true then
      ((dySort (List.replicate (2 ^ (g + 1)) v))[(List.replicate (2 ^ (g + 1)) v).length / 2]?).map Val.ofDy
    else match (dySort (List.replicate (2 ^ (g + 1)) v))[(List.replicate (2 ^ (g + 1)) v).length / 2 - 1]?,
        (dySort (List.replicate (2 ^ (g + 1)) v))[(List.replicate (2 ^ (g + 1)) v).length / 2]? with
      | some a, some b => some (Val.ofDy (dyNorm (dyAdd a b).1 ((dyAdd a b).2 + 1)))
      | _, _ => none) = _
  rw [dySort_replicate, List.length_replicate]
  have h0 : (2 ^ (g + 1) == 0) = false := by simp
  have h1 : (2 ^ (g + 1) % 2 == 1) = false := by rw [hk2]; simp
  have ha : (List.replicate (2 ^ (g + 1)) v)[2 ^ (g + 1) / 2 - 1]? = some v := by
    rw [List.getElem?_replicate, if_pos (by omega)]
  have hb : (List.replicate (2 ^ (g + 1)) v)[2 ^ (g + 1) / 2]? = some v := by
    rw [List.getElem?_replicate, if_pos (by omega)]
  simp only [h0, h1, ha, hb, Bool.false_eq_true, if_false]
  obtain ⟨n, e⟩ := v
  have hs := dyNorm_spec (n * 2 ^ e + n * 2 ^ e) (e + e)
  rw [dyAdd_eq]
  simp only at hs ⊢
  generalize dyNorm (n * 2 ^ e + n * 2 ^ e) (e + e) = s at hs ⊢
  have : dyNorm s.1 (s.2 + 1) = dyNorm n e := by
    apply dyNorm_canon (a := (s.1, s.2 + 1)) (b := (n, e))
    unfold dyEq
    simp only
    have hp : (0 : Int) < 2 ^ e := Int.pow_pos (by decide)
    apply Int.eq_of_mul_eq_mul_right (Int.ne_of_gt hp)
    rw [Int.pow_add] at hs
    rw [Int.pow_succ]
    generalize (2 : Int) ^ e = E at *
    generalize (2 : Int) ^ s.2 = S at *
    grind
  show some (Val.num (dyNorm s.1 (s.2 + 1)).1 (dyNorm s.1 (s.2 + 1)).2) = _
  rw [this]
  rfl


theorem reduce_prod_replicate (v : Int × Nat) (k : Nat) (ws wd : List (Int × Nat)) :
    reduceVals "prod" (List.replicate k v) ws wd = some (.ofDy (dyPowNat v k)) := by
  show some (Val.ofDy ((List.replicate k v).foldl dyMul (1, 0))) = _
  have key : ∀ j i, (List.replicate j v).foldl dyMul (dyPowNat v i) = dyPowNat v (i + j) := by
    intro j
    induction j with
    | zero => intro i; rfl
    | succ j ih =>
      intro i
      rw [List.replicate_succ, List.foldl_cons, show dyMul (dyPowNat v i) v = dyPowNat v (i + 1) from rfl,
        ih (i + 1)]
      congr 1
      omega
  have := key k 0
  rw [Nat.zero_add] at this
  rw [← this]
  rfl

theorem mkRat_zero (d : Nat) (hd : d ≠ 0) : mkRat 0 d = .num 0 0 := by
  unfold mkRat
  have : (d == 0) = false := by simpa using hd
  simp only [this, Bool.false_eq_true, if_false, Int.natAbs_zero, Nat.gcd_zero_left, Int.zero_ediv,
    Nat.div_self (Nat.pos_of_ne_zero hd)]
  rfl

/-- the `std` branch of `reduceVals` -/
def stdOf (vals : List (Int × Nat)) : Option Val :=
  if vals.length == 0 then none else
  match mkRat (dySub (dyMul ((vals.length : Int), 0) (dySum (vals.map fun x => dyMul x x)))
      (dyMul (dySum vals) (dySum vals))).1
    (2 ^ (dySub (dyMul ((vals.length : Int), 0) (dySum (vals.map fun x => dyMul x x)))
      (dyMul (dySum vals) (dySum vals))).2 * vals.length * vals.length) with
  | .num 0 _ => some (.num 0 0)
  | .num n e => some (.sqrtRat n (2 ^ e))
  | .rat n d => some (.sqrtRat n d)
  | _ => some .poison

theorem reduceVals_std (vals ws wd : List (Int × Nat)) : reduceVals "std" vals ws wd = stdOf vals := rfl

/-- the standard deviation of `k` copies of one value is exactly `0.0` -/
theorem reduce_std_replicate (v : Int × Nat) (k : Nat) (hk : 0 < k) (ws wd : List (Int × Nat)) :
    reduceVals "std" (List.replicate k v) ws wd = some (.num 0 0) := by
  obtain ⟨n, e⟩ := v
  have h0 : ((List.replicate k (n, e)).length == 0) = false := by
    rw [List.length_replicate]; simpa using Nat.ne_of_gt hk
  have hab : dyMul (((List.replicate k (n, e)).length : Int), 0)
        (dySum ((List.replicate k (n, e)).map fun x => dyMul x x))
      = dyMul (dySum (List.replicate k (n, e))) (dySum (List.replicate k (n, e))) := by
    rw [List.map_replicate, List.length_replicate]
    have hw := dyNorm_spec (n * n) (e + e)
    have e1 : dyMul (n, e) (n, e) = dyNorm (n * n) (e + e) := rfl
    rw [e1]
    generalize dyNorm (n * n) (e + e) = w at hw ⊢
    obtain ⟨w1, w2⟩ := w
    rw [dySum_replicate w1 w2 k hk, dySum_replicate n e k hk]
    have hs1 := dyNorm_spec ((k : Nat) * n) e
    have hs2 := dyNorm_spec ((k : Nat) * w1) w2
    generalize dyNorm ((k : Nat) * n) e = s1 at hs1 ⊢
    generalize dyNorm ((k : Nat) * w1) w2 = s2 at hs2 ⊢
    unfold dyMul
    apply dyNorm_canon (a := (_, _)) (b := (_, _))
    unfold dyEq
    simp only at hw hs1 hs2 ⊢
    have hp : (0 : Int) < 2 ^ (e + e) * 2 ^ w2 := Int.mul_pos (Int.pow_pos (by decide)) (Int.pow_pos (by decide))
    apply Int.eq_of_mul_eq_mul_right (Int.ne_of_gt hp)
    rw [Int.pow_add] at hw ⊢
    rw [Int.pow_add, Int.pow_add]
    try simp only [Nat.zero_add]
    generalize (2 : Int) ^ e = E at *
    generalize (2 : Int) ^ w2 = W at *
    generalize (2 : Int) ^ s1.2 = S1 at *
    generalize (2 : Int) ^ s2.2 = S2 at *
    grind
  rw [reduceVals_std]
  unfold stdOf
  rw [h0, hab]
  simp only [Bool.false_eq_true, if_false]
  have hsub : ∀ a : Int × Nat, dySub a a = (0, 0) := by
    intro a
    unfold dySub dyAlign
    simp only [Int.sub_self]
    exact WFRes.dyNorm_zero _
  rw [hsub, List.length_replicate, mkRat_zero]
  · rfl
  · exact Nat.ne_of_gt (Nat.mul_pos (Nat.mul_pos (Nat.two_pow_pos _) hk) hk)

/-- `dyAdd` adds: on two representations over a common denominator it returns the canonical
    form of the sum -/
theorem dyAdd_sem {a b : Int × Nat} {A B : Int} {g : Nat} (ha : dyEq a (A, g)) (hb : dyEq b (B, g)) :
    dyAdd a b = dyNorm (A + B) g := by
  rw [dyAdd_eq]
  apply dyNorm_canon (a := (_, _)) (b := (_, _))
  unfold dyEq at ha hb ⊢
  simp only at ha hb ⊢
  rw [Int.pow_add]
  generalize (2 : Int) ^ a.2 = P at *
  generalize (2 : Int) ^ b.2 = Q at *
  generalize (2 : Int) ^ g = G at *
  grind

theorem dySum4 (c0 c1 c2 c3 : Int) (g : Nat) :
    dySum [dyNorm c0 g, dyNorm c1 g, dyNorm c2 g, dyNorm c3 g] = dyNorm (c0 + c1 + c2 + c3) g := by
  unfold dySum
  simp only [List.foldl_cons, List.foldl_nil]
  have h0 : dyEq (0, 0) (0, g) := by simp [dyEq]
  rw [dyAdd_sem h0 (dyNorm_spec c0 g), dyAdd_sem (dyNorm_spec _ g) (dyNorm_spec c1 g),
    dyAdd_sem (dyNorm_spec _ g) (dyNorm_spec c2 g), dyAdd_sem (dyNorm_spec _ g) (dyNorm_spec c3 g)]
  simp

/-- the mean of four dyadics with a common denominator `2^g` is the canonical form of
    `(c0+c1+c2+c3) / 2^(g+2)` -/
theorem mean4 (c0 c1 c2 c3 : Int) (g : Nat) (ws wd : List (Int × Nat)) :
    reduceVals "mean" [dyNorm c0 g, dyNorm c1 g, dyNorm c2 g, dyNorm c3 g] ws wd =
      some (.num (dyNorm (c0 + c1 + c2 + c3) (g + 2)).1 (dyNorm (c0 + c1 + c2 + c3) (g + 2)).2) := by
  show some (mkRat (dySum [dyNorm c0 g, dyNorm c1 g, dyNorm c2 g, dyNorm c3 g]).1
    (2 ^ (dySum [dyNorm c0 g, dyNorm c1 g, dyNorm c2 g, dyNorm c3 g]).2 * 4)) = _
  rw [dySum4, show (4 : Nat) = 2 ^ 2 from rfl, ← Nat.pow_add, mkRat_two_pow]
  have hs := dyNorm_spec (c0 + c1 + c2 + c3) g
  generalize dyNorm (c0 + c1 + c2 + c3) g = s at hs ⊢
  have : dyNorm s.1 (s.2 + 2) = dyNorm (c0 + c1 + c2 + c3) (g + 2) := by
    apply dyNorm_canon (a := (s.1, s.2 + 2)) (b := (_, g + 2))
    unfold dyEq
    simp only
    rw [Int.pow_add, Int.pow_add]
    generalize (2 : Int) ^ g = G at *
    generalize (2 : Int) ^ s.2 = S at *
    grind
  rw [this]

/-! ### the fracdet map -/

/-- the object `fracdet_map(nside)` returns, as the driver builds it: a float64 map with
    sentinel `0.0` at sparse order `ord`, sharing the coverage layout of the source -/
def fracdetMap (m : MapObj) (ord : Nat) : MapObj :=
  { covord := m.covord, spord := ord, kind := .plain (.flt 64), sent := .num 0 0,
    st := fracdetState m ord }

/-- number of valid children of coarse pixel `q` (order `ord`) in `m` -/
def fracCount (m : MapObj) (ord q : Nat) : Nat := (validChildren m ord q).length

/-- the cell holding `n / 2^g` exactly (canonical dyadic) -/
def fracCell (n g : Nat) : Val := .num (dyNorm (n : Int) g).1 (dyNorm (n : Int) g).2

theorem fracdetState_eq (m : MapObj) (ord : Nat) :
    fracdetState m ord =
      mapCells (fracdetCounts m.c m.vc m.st (2 * (m.spord - ord)))
        (fun n => fracCell n (2 * (m.spord - ord))) := rfl

theorem filter_range_children (m : MapObj) (ord q : Nat) :
    ((List.range (2 ^ (2 * (m.spord - ord)))).filter fun j =>
        m.vc.valid (HS.abs m.c m.vc m.st (q * 2 ^ (2 * (m.spord - ord)) + j))).length
      = fracCount m ord q := by
  unfold fracCount validChildren childPix
  rw [List.filter_map, List.length_map]
  rfl

/-- **the dense view of the fracdet map**: the exact dyadic `count / 4^(spord-ord)` -/
theorem fracdetMap_abs {m : MapObj} (h : m.WF) (hv : m.BlankInvalid) {ord : Nat}
    (hlo : m.covord ≤ ord) (hhi : ord ≤ m.spord) {q : Nat} (hq : q < 12 * 4 ^ ord) :
    (fracdetMap m ord).abs q = fracCell (fracCount m ord q) (2 * (m.spord - ord)) := by
  have hg := gbits_le (m := m) (ordOut := ord) hlo
  have hc : fcfg m.c (2 * (m.spord - ord)) = cfgOf m.covord ord := degCfg_cfgOf hlo hhi
  have hinv := h.2.fracdet_inv' hv hg
  have hq' : q < (fcfg m.c (2 * (m.spord - ord))).npix := by rw [hc, cfgOf_npix hlo]; exact hq
  have heq := h.2.fracdet_eq' hv hg hq'
  rw [filter_range_children] at heq
  show HS.abs (cfgOf m.covord ord) _ (fracdetState m ord) q = _
  rw [fracdetState_eq, ← hc, abs_mapCells _ fvc _ _ _ hinv q hq', heq]

theorem fracCell_zero (g : Nat) : fracCell 0 g = .num 0 0 := by
  unfold fracCell
  rw [show ((0 : Nat) : Int) = 0 from rfl, WFRes.dyNorm_zero]

theorem fracCell_ne_zero {n : Nat} (hn : n ≠ 0) (g : Nat) : fracCell n g ≠ .num 0 0 := by
  unfold fracCell
  intro h
  have h1 : (dyNorm (n : Int) g).1 = 0 := by injection h
  have hs := dyNorm_spec (n : Int) g
  rw [h1, Int.zero_mul] at hs
  have hp : (0 : Int) < 2 ^ (dyNorm (n : Int) g).2 := Int.pow_pos (by decide)
  have : (n : Int) = 0 := by
    rcases Int.mul_eq_zero.1 hs.symm with h | h
    · exact h
    · omega
  omega

/-- **what the cell means**: it denotes `count / 2^g` -/
theorem fracCell_spec (n g : Nat) {a : Int} {e : Nat} (h : fracCell n g = .num a e) :
    a * 2 ^ g = (n : Int) * 2 ^ e := by
  unfold fracCell at h
  injection h with h1 h2
  rw [← h1, ← h2]
  exact dyNorm_spec _ _

/-- coverage of the fracdet map = coverage of the source -/
theorem fracdetMap_covered {m : MapObj} (h : m.WF) {ord : Nat} (hlo : m.covord ≤ ord)
    (hhi : ord ≤ m.spord) {k : Nat} (hk : k < m.c.ncov) :
    covered (fracdetMap m ord).c (fracdetMap m ord).st k = covered m.c m.st k := by
  have hc : fcfg m.c (2 * (m.spord - ord)) = cfgOf m.covord ord := degCfg_cfgOf hlo hhi
  have := h.2.fracdet_covered' (g := 2 * (m.spord - ord)) hk
  rw [hc] at this
  exact this

/-- the valid pixels of the fracdet map: those with a valid child -/
theorem fracdetMap_valid {m : MapObj} (h : m.WF) (hv : m.BlankInvalid) {ord : Nat}
    (hlo : m.covord ≤ ord) (hhi : ord ≤ m.spord) {q : Nat} (hq : q < 12 * 4 ^ ord) :
    (fracdetMap m ord).vc.valid ((fracdetMap m ord).abs q) = decide (0 < fracCount m ord q) := by
  rw [fracdetMap_abs h hv hlo hhi hq]
  show (fracCell _ _ != Val.num 0 0) = _
  by_cases h0 : fracCount m ord q = 0
  · rw [h0, fracCell_zero]; rfl
  · have := fracCell_ne_zero h0 (2 * (m.spord - ord))
    rw [decide_eq_true (by omega)]
    simpa using this

theorem range_mul (a b : Nat) :
    List.range (a * b) = (List.range a).flatMap fun i => (List.range b).map fun j => i * b + j := by
  induction a with
  | zero => simp
  | succ a ih =>
    rw [Nat.succ_mul, List.range_add, ih, List.range_succ, List.flatMap_append]
    simp

/-- the children of `q` at order `o` are the children of its four children at order `o+1` -/
theorem childPix_split {m : MapObj} {o : Nat} (ho : o < m.spord) (q : Nat) :
    childPix m o q = (List.range 4).flatMap fun i => childPix m (o + 1) (4 * q + i) := by
  unfold childPix
  have hg : 2 * (m.spord - o) = 2 + 2 * (m.spord - (o + 1)) := by omega
  rw [hg, Nat.pow_add]
  generalize 2 ^ (2 * (m.spord - (o + 1))) = G
  rw [show (2 : Nat) ^ 2 = 4 from rfl, range_mul, List.map_flatMap]
  congr 1
  funext i
  rw [List.map_map]
  apply List.map_congr_left
  intro j _
  simp only [Function.comp_apply]
  grind

/-- **additivity of the count**: the number of valid children of a coarse pixel is the sum over
    its four children at the next finer order -/
theorem fracCount_add {m : MapObj} {o : Nat} (ho : o < m.spord) (q : Nat) :
    fracCount m o q = fracCount m (o + 1) (4 * q) + fracCount m (o + 1) (4 * q + 1) +
      fracCount m (o + 1) (4 * q + 2) + fracCount m (o + 1) (4 * q + 3) := by
  unfold fracCount validChildren
  rw [childPix_split ho, List.filter_flatMap, List.length_flatMap]
  simp [List.range_succ, Nat.add_assoc]

/-- at the map's own order the only child of a pixel is the pixel -/
theorem childPix_self (m : MapObj) (q : Nat) : childPix m m.spord q = [q] := by
  unfold childPix
  simp

theorem fracCount_self (m : MapObj) (q : Nat) :
    fracCount m m.spord q = if m.vc.valid (m.abs q) then 1 else 0 := by
  unfold fracCount validChildren
  rw [childPix_self]
  cases h : m.vc.valid (m.abs q) <;> simp [h]

theorem fracCount_le (m : MapObj) (o q : Nat) : fracCount m o q ≤ 4 ^ (m.spord - o) := by
  unfold fracCount validChildren
  rw [← childPix_length m o q]
  exact List.length_filter_le _ _

theorem fracCount_pos_iff {m : MapObj} {o q : Nat} :
    0 < fracCount m o q ↔ validChildren m o q ≠ [] := by
  unfold fracCount
  rw [List.length_pos_iff]

/-! ### groups of identical children (an upgraded map) -/

/-- the valid children of `q` in a map `u` all of whose children of `q` read `x`: all of them or
    none, and their values are copies of `x` -/
theorem validChildren_const {u : MapObj} {ord q : Nat} {x : Val}
    (habs : ∀ c, c ∈ childPix u ord q → u.abs c = x) :
    (validChildren u ord q).map (fun p => (u.abs p).numD) =
      if u.vc.valid x then List.replicate (4 ^ (u.spord - ord)) x.numD else [] := by
  unfold validChildren
  cases hv : u.vc.valid x with
  | true =>
    rw [if_pos rfl]
    have hf : (childPix u ord q).filter (fun p => u.vc.valid (u.abs p)) = childPix u ord q := by
      rw [List.filter_eq_self]
      intro c hc
      rw [habs c hc, hv]
    rw [hf, List.eq_replicate_iff]
    refine ⟨by rw [List.length_map, childPix_length], ?_⟩
    intro b hb
    obtain ⟨c, hc, rfl⟩ := List.mem_map.1 hb
    rw [habs c hc]
  | false =>
    rw [if_neg (by simp)]
    have hf : (childPix u ord q).filter (fun p => u.vc.valid (u.abs p)) = [] := by
      rw [List.filter_eq_nil_iff]
      intro c hc
      rw [habs c hc, hv]
      simp
    rw [hf]
    rfl

theorem childPix_ne_nil (u : MapObj) (ord q : Nat) : childPix u ord q ≠ [] := by
  intro h
  have := childPix_length u ord q
  rw [h] at this
  have hp : 0 < 4 ^ (u.spord - ord) := Nat.pow_pos (by decide)
  simp at this
  omega

theorem live_const {u : MapObj} {ord q : Nat} {x : Val}
    (habs : ∀ c, c ∈ childPix u ord q → u.abs c = x) (hlo : u.covord ≤ ord) :
    live u ord q = (u.vc.valid x || covered u.c u.st (q >>> (2 * (ord - u.covord)))) := by
  unfold live
  rw [decide_eq_true hlo, Bool.true_and]
  congr 1
  cases hv : u.vc.valid x with
  | true =>
    obtain ⟨c, hc⟩ := List.exists_mem_of_ne_nil _ (childPix_ne_nil u ord q)
    rw [List.any_eq_true]
    exact ⟨c, hc, by rw [habs c hc, hv]⟩
  | false =>
    rw [Bool.eq_false_iff]
    intro h
    obtain ⟨c, hc, hval⟩ := List.any_eq_true.1 h
    rw [habs c hc, hv] at hval
    cases hval

theorem four_pow (j : Nat) : 4 ^ j = 2 ^ (2 * j) := by
  rw [Nat.pow_mul]

theorem childPix_four (F : MapObj) (o q : Nat) (hs : F.spord = o + 1) :
    childPix F o q = (List.range 4).map fun i => 4 * q + i := by
  unfold childPix
  rw [hs, show 2 * (o + 1 - o) = 2 by omega]
  apply List.map_congr_left
  intro j _
  show q * 4 + j = 4 * q + j
  omega

theorem get?_bind_self (w : World) (r : String) (m : MapObj) :
    (w.bind r m).get? r = some { m with view := none } := by
  unfold World.get? World.raw? World.bind
  simp

/-! ### the protocol driver -/

/-- **what the protocol line `fracdet m r=… ord=…` does**: `ValueError` outside
    `covord ≤ ord ≤ spord`, else the name `r` is bound to `fracdetMap m ord` -/
theorem opFracdet_eq (w : World) (a : Args) (n : String) (rest : List String) (m : MapObj)
    (r : String) (ord : Nat) (hpos : a.pos = n :: rest) (hget : w.get? n = some m)
    (hr : a.get? "r" = some r) (ho : a.nat? "ord" = some ord) :
    opFracdet w a =
      if ord > m.spord ∨ ord < m.covord then (w, errLine .value)
      else (w.bind r (fracdetMap m ord), "ok") := by
  unfold opFracdet withMap
  simp only [hpos, hget, hr, ho]
  by_cases h : ord > m.spord ∨ ord < m.covord
  · rw [if_pos h, if_pos (by simpa using h)]
  · rw [if_neg h, if_neg (by simpa using h)]
    rfl

/-- `upg m ord=… r=…` binds the result of `apiUpgrade` -/
theorem opUpg_eq (w : World) (a : Args) (n : String) (rest : List String) (m : MapObj)
    (ord : Nat) (hpos : a.pos = n :: rest) (hget : w.get? n = some m)
    (ho : a.nat? "ord" = some ord) :
    opUpg w a =
      match apiUpgrade m ord with
      | .ok r => (w.bind (a.getD "r" "tmp") r, "ok")
      | .error e => (w, errLine e) := by
  unfold opUpg withMap
  simp only [hpos, hget, ho]
  cases apiUpgrade m ord <;> rfl

end ApiResolution
end HS
