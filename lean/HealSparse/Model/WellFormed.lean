/-
  Well-formedness of the objects the executable API model manipulates: the published
  layout `Inv` (Model/Core.lean) instantiated at a map object's own configuration, cell
  type and sentinel, for maps, for files, and for a whole driver `World`.

  Nothing here is used by the driver; these are the predicates of the global invariant
  theorem `C04.reachable_wf` ("every map and file reachable through any protocol history
  obeys the layout").
-/
import HealSparse.Model.Dispatch
namespace HS

/-- a map object whose arrays obey the published layout at its own configuration -/
def MapObj.WF (m : MapObj) : Prop := m.covord ≤ m.spord ∧ Inv m.c m.vc m.st

instance (m : MapObj) : Decidable m.WF := by unfold MapObj.WF; infer_instance

/-- a file whose COV / SPARSE extensions obey the layout at the configuration and cell kind
    the reader recovers from its header -/
def FileObj.WF (f : FileObj) : Prop :=
  f.covord ≤ f.spord ∧
  ∀ kind, fileKind f = some kind →
    Inv (cfgOf f.covord f.spord) ⟨kind.blank f.sentinel, kind.valid f.sentinel⟩ (readFull f.file)

/-- every stored map that owns its storage, and every stored file, is well formed.
    (A pool entry with `view = some _` is a descriptor of a record-field view — its arrays
    live in the parent entry — and is resolved against the parent at each use.) -/
def World.WF (w : World) : Prop :=
  (∀ e ∈ w.pool, e.2.view = none → e.2.WF) ∧ (∀ e ∈ w.files, e.2.WF)

/-- run a protocol history from the empty world -/
def runLines (lines : List String) : World := lines.foldl (fun w l => (step w l).1) {}

end HS
