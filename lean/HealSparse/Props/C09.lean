/-
  C09 — operations that return new maps never disturb, or stay tied to, their inputs.
  Property theorems only.  Stated over the heap layer (Model/Heap.lean): with the sharing
  pattern the code uses (immutable, possibly shared coverage objects; one buffer per
  non-view map; mutators write only through their own handle), no operation can change what
  another handle denotes.  That the real objects follow this sharing pattern is checked by
  the correspondence (two-phase histories + alias relation), not proved.
-/
import HealSparse.Model.Heap
import HealSparse.Lemmas.Heap
namespace HS
namespace C09

variable {V : Type}

/-- `Sep` is an invariant of every step. -/
theorem sep_step (h : Heap V) (hs : h.Sep) (st : HStep V) : (h.step st).Sep :=
  HeapL.sep_step h hs st

/-- **frame (mutator)**: mutating handle `i` leaves every other handle's map unchanged. -/
theorem mutate_frame (h : Heap V) (hs : h.Sep) (i j : Nat) (f : State V → State V)
    (hij : j ≠ i) (hj : j < h.maps.size) : (h.mutate i f).read j = h.read j :=
  HeapL.mutate_frame h hs i j f hij hj

/-- the mutated handle denotes the mutator's result -/
theorem mutate_self (h : Heap V) (hs : h.Sep) (i : Nat) (f : State V → State V)
    (hi : i < h.maps.size) : (h.mutate i f).read i = f (h.read i) :=
  HeapL.mutate_self h hs i f hi

/-- **inputs unchanged**: a map-producing operation leaves every existing handle unchanged … -/
theorem produce_frame (h : Heap V) (hs : h.Sep) (sc : Option Nat) (res : State V) (j : Nat)
    (hj : j < h.maps.size) : (h.produce sc res).read j = h.read j :=
  HeapL.produce_frame h hs sc res j hj

/-- … and the new handle denotes the result (given the caller's guarantee when the coverage
    object is shared). -/
theorem produce_result (h : Heap V) (hs : h.Sep) (sc : Option Nat) (res : State V)
    (hshare : ∀ j, sc = some j → j < h.maps.size → (h.read j).cov = res.cov) :
    (h.produce sc res).read h.maps.size = res ∧ (h.produce sc res).maps.size = h.maps.size + 1 :=
  ⟨HeapL.produce_result h hs sc res hshare, HeapL.produce_maps_size h sc res⟩

/-- **no tie, for every continuation**: after any history of steps, a handle that no step of
    the history targets still denotes the same map — so mutating or growing a result is
    invisible through its sources, and vice versa, however the coverage objects are shared. -/
theorem no_tie (h : Heap V) (hs : h.Sep) (steps : List (HStep V)) (j : Nat) (hj : j < h.maps.size)
    (hnot : ∀ st ∈ steps, st.target ≠ some j) : (h.run steps).read j = h.read j :=
  HeapL.no_tie h hs steps j hj hnot

/-- witness: WITHOUT copy-on-append (a mutator writing the shared coverage object in place)
    the frame property fails — this is what `append_pixels(copy=True)` is for. -/
def mutateNoCopy (h : Heap V) (i : Nat) (f : State V → State V) : Heap V :=
  match h.maps[i]? with
  | none => h
  | some m =>
    let s' := f (h.read i)
    { covs := h.covs.setIfInBounds m.cov s'.cov, bufs := h.bufs.setIfInBounds m.buf s'.sp, maps := h.maps }

example :
    let h : Heap Nat := ⟨#[#[0]], #[#[1], #[2]], #[⟨0, 0⟩, ⟨0, 1⟩]⟩   -- two maps sharing one coverage object
    (mutateNoCopy h 0 (fun s => ⟨#[5], s.sp⟩)).read 1 ≠ h.read 1 := by
  intro h e
  have := congrArg State.cov e
  revert this
  decide

/-- non-vacuity: the same heap satisfies `Sep` -/
example : (⟨#[#[0]], #[#[1], #[2]], #[⟨0, 0⟩, ⟨0, 1⟩]⟩ : Heap Nat).Sep := by
  refine ⟨?_, ?_⟩
  · intro i m hi
    rcases i with _ | _ | i <;> simp at hi <;> subst hi <;> decide
  · intro i j mi mj hi hj hij
    rcases i with _ | _ | i <;> rcases j with _ | _ | j <;> simp at hi hj hij <;>
      subst hi <;> subst hj <;> decide

end C09
end HS
