#!/venv/bin/python
"""./check <Cxx> [--tier quick|thorough] [--replay file]

Decides one property: (A) the Lean theorems of lean/HealSparse/Props/<Cxx>.lean are rebuilt
and audited (no sorry, axioms within the allowed three); (B) the correspondence between the
Lean model and /repo's current working tree is run on generated histories; a difference is
shrunk and reported as `VIOLATION property=<id> replay=<path>` (exit 1).
Exit 2 = infrastructure failure (never a verdict)."""
import sys
import os
import json
import time
import random
import argparse
import importlib
import traceback
import collections

HERE = os.path.dirname(os.path.abspath(__file__))
VERIF = os.path.dirname(HERE)
sys.path.insert(0, HERE)

if os.environ.get('VERIF_LINECOV'):     # diagnostic: which implementation lines the run reaches
    import linecov
    linecov.start(os.path.join(os.environ.get('HS_REPO', '/repo'), 'healsparse'))

import core  # noqa: E402
import leanaudit  # noqa: E402


class Stats(object):
    def __init__(self):
        self.ops = collections.Counter()
        self.errs = collections.Counter()
        self.kinds = collections.Counter()
        self.steps = 0
        self.discarded = 0
        self.lit_agree = 0
        self.lit_total = 0
        self.model_err_only = 0
        self.drift = 0

    def count(self, line, ro, mo):
        self.steps += 1
        toks = line.split()
        self.ops[toks[0]] += 1
        if toks[0] == 'cfg':
            kv = dict(t.split('=', 1) for t in toks[2:] if '=' in t)
            self.kinds[kv.get('kind', '?') + ':' + kv.get('dtype', kv.get('maxbits', ''))] += 1
        if ro.startswith('err'):
            self.errs[ro.split()[1] if len(ro.split()) > 1 else 'err'] += 1
        if toks[0] == 'state' and 'lit=' in mo:
            self.lit_total += 1
            if 'lit=1' in mo:
                self.lit_agree += 1


def load_known(pid):
    path = os.path.join(VERIF, 'known_findings.json')
    if not os.path.exists(path):
        return []
    return [k for k in json.load(open(path)) if k.get('property') == pid]


def write_replay(pid, payload):
    d = os.path.join(VERIF, 'replays')
    os.makedirs(d, exist_ok=True)
    name = "%s-%s.json" % (pid, core.hist_hash([json.dumps(payload, sort_keys=True)]))
    path = os.path.join(d, name)
    with open(path, 'w') as f:
        json.dump(payload, f, indent=1)
    return path


def write_evidence(pid, ev):
    d = os.path.join(VERIF, 'evidence')
    os.makedirs(d, exist_ok=True)
    with open(os.path.join(d, pid + '.json'), 'w') as f:
        json.dump(ev, f, indent=1)


def file_variants_applied():
    try:
        import real
        return real.VARIANTS_APPLIED[0]
    except Exception:
        return None


def with_vals_after_state(h):
    out = []
    for i, ln in enumerate(h):
        out.append(ln)
        t = ln.split()
        if len(t) == 2 and t[0] == 'state':
            nxt = h[i + 1] if i + 1 < len(h) else ''
            if nxt != 'vals ' + t[1]:
                out.append('vals ' + t[1])
            # ... and, at every other export, by the cached count (a count inherited from the operand of a copying
            # operation, or left stale by the operation that produced / changed X: seeded changes C12f, C10f, C02f)
            # ... and, in rotation, by one more observer of the model's own view of X: the cached count (a count
            # inherited from the operand of a copying operation, or left stale by the operation that produced /
            # changed X: seeded changes C12f, C10f, C02f), the coverage mask (a result whose coverage is not the
            # documented union: C11f), the header (storage kind, dtype, sentinel of a result: C07f, C03f)
            extra = ('nvalid', 'covmask', 'info')[(i + len(h)) % 3]
            if not nxt.startswith(extra + ' ' + t[1]):
                out.append(extra + ' ' + t[1])
    return out


def repo_head():
    import subprocess
    try:
        return subprocess.run(['git', '-C', os.environ.get('HS_REPO', '/repo'), 'rev-parse', 'HEAD'],
                              stdout=subprocess.PIPE).stdout.decode().strip()
    except Exception:
        return '?'


def main():
    ap = argparse.ArgumentParser()
    ap.add_argument('pid')
    ap.add_argument('--tier', default=os.environ.get('VERIF_TIER', 'quick'))
    ap.add_argument('--replay')
    ap.add_argument('--no-lean', action='store_true', help='skip the Lean build/audit (debugging only)')
    args = ap.parse_args()
    pid = args.pid
    tier = args.tier if args.tier in ('quick', 'thorough') else 'quick'
    seed = int(os.environ.get('VERIF_SEED', '0'))
    t0 = time.time()
    mod = importlib.import_module('props.' + pid.lower())

    # property-specific oracles apply to replays as well
    core.PAIR_CHECK = getattr(mod, 'pair_check', None)
    core.MUST_REJECT = getattr(mod, 'must_reject', None)
    if args.replay:
        rp = json.load(open(args.replay))
        if rp.get('subkind') == 'kernel-row':
            mod.translate()
            rows = mod.kernel_failing_rows()
            if not rows:
                print("replay: the kernel tables of the current tree agree with the model")
                return 0
            print("replay: kernel rows differ: %s" % json.dumps(rows)[:600])
            print("VIOLATION property=%s replay=%s" % (pid, args.replay))
            return 1
        lines = rp['ops']
        d = core.fails(lines)
        if d is None:
            print("replay: no difference on the current tree")
            return 0
        print("replay: step %d `%s`: %s" % (d.step, d.line[:200], d.reason))
        print("VIOLATION property=%s replay=%s" % (pid, args.replay))
        return 1

    violations = []          # (replay_path, suffix)
    # ---------------- (A) Lean obligations --------------------------------
    lean = {'theorems': [], 'rc': 0, 'log': ''}
    forbidden = []
    gen_info = {}
    if not args.no_lean:
        if hasattr(mod, 'translate'):
            gen_info = mod.translate()       # regenerate Generated/*.lean from /repo
        rc, out, bt = leanaudit.build(leanaudit.prop_modules(pid) + ['hsdriver'])
        forbidden = leanaudit.forbidden_tokens(pid)
        if rc == 0:
            lean = leanaudit.audit(pid)
        else:
            lean = {'theorems': [{'name': n, 'axioms': None, 'ok': False} for n in leanaudit.theorem_names(pid)],
                    'rc': rc, 'log': out[-3000:]}
        if not os.path.exists(core.DRIVER):
            print("infrastructure: driver not built\n" + out[-2000:])
            return 2
    # thorough tier: independent re-check of the compiled module with leanchecker
    leanchecker = None
    if not args.no_lean and tier == 'thorough' and lean['rc'] == 0:
        rc2, out2 = leanaudit.sh("lake env leanchecker " + ' '.join(leanaudit.prop_modules(pid)), timeout=1800)
        leanchecker = {'rc': rc2, 'tail': out2[-300:]}
        if rc2 != 0:
            lean['rc'] = rc2
            lean['log'] = (lean.get('log') or '') + '\nleanchecker: ' + out2[-1500:]
    obligations = len(lean['theorems'])
    discharged = sum(1 for t in lean['theorems'] if t['ok'])
    lean_broken = (not args.no_lean) and (lean['rc'] != 0 or discharged != obligations or forbidden)

    # ---------------- (B) correspondence ----------------------------------
    rng = random.Random(seed * 1000003 + int(pid[1:]))
    stats = Stats()
    kernel_rows = {}
    if lean_broken and hasattr(mod, 'kernel_failing_rows'):
        # a generated kernel table no longer matches the model: the differing rows ARE failing inputs
        kernel_rows = mod.kernel_failing_rows()
    gen_retries = 0
    while True:
        try:
            hists = mod.histories(rng, tier if (not lean_broken or kernel_rows) else 'thorough')
            break
        except Exception as e:          # a bug of a GENERATOR must not pose as a finding about the library
            gen_retries += 1
            sys.stderr.write('generator raised %s: %s (retry %d with a re-seeded PRNG)\n' % (type(e).__name__, e, gen_retries))
            if gen_retries >= 4:
                raise
            rng = random.Random(seed * 1000003 + int(pid[1:]) + 7919 * gen_retries)
    corpus = mod.corpus() if hasattr(mod, 'corpus') else []
    # repaired defects stay in the corpus: their replays must agree with the model from now on
    corpus = corpus + [k['replay'] for k in load_known(pid) if k.get('status') == 'fixed' and k.get('replay')
                       and (tier == 'thorough' or k.get('tier') != 'thorough')]
    # A `state X` line checks the REAL arrays (layout, Lean abs of the real arrays = real read path); it does not
    # compare them with the MODEL's own content of X.  So that an unexpected change of X (a tie between two
    # maps: seeded change C09e) cannot hide behind it, every `state X` is followed by `vals X` (model content =
    # real content at every pixel) unless the history already asks for it.
    hists = [with_vals_after_state(h) for h in hists]
    allh = corpus + hists
    diffs = []
    core.PAIR_CHECK = getattr(mod, 'pair_check', None)
    core.MUST_REJECT = getattr(mod, 'must_reject', None)
    CH = 200
    for i in range(0, len(allh), CH):
        diffs += [(i + d.hist_index, d) for d in core.check_histories(allh[i:i + CH], stats, pair_check=core.PAIR_CHECK)]
    nontriv = set()
    for h in allh:
        if mod.nontrivial(h):
            nontriv.add(core.hist_hash(h))
    extra = {}
    if hasattr(mod, 'extra_checks'):
        extra = mod.extra_checks(rng, tier, violations) or {}

    # known findings: replayed, reported, never suppress anything else
    known_lines = []
    for k in load_known(pid):
        if k.get('status') != 'known':
            continue
        if k.get('mode') == 'expect':
            # the model mirrors the defective code; the property itself prescribes `property_says`
            robs, _ = core.run_real(k['replay'])
            if robs[k['step']] != k['property_says']:
                known_lines.append("KNOWN-FINDING: property=%s %s" % (pid, k['what']))
        elif k.get('mode') == 'steps_equal':
            # the property equates two observations of the implementation itself
            robs, _ = core.run_real(k['replay'])
            i, j = k['steps']
            if robs[i] != robs[j]:
                known_lines.append("KNOWN-FINDING: property=%s %s" % (pid, k['what']))
        else:
            d = core.fails(k['replay'])
            if d is not None:
                known_lines.append("KNOWN-FINDING: property=%s %s" % (pid, k['what']))

    seen_reason = set()
    for hi, d in diffs:
        key = (d.line.split()[0], d.reason[:40])
        if key in seen_reason and len(seen_reason) > 0:
            continue
        seen_reason.add(key)
        try:
            small, dd = core.shrink(allh[hi])
        except Exception:
            small, dd = allh[hi], None          # never let the shrinker hide a finding
        dd = dd or d
        path = write_replay(pid, {
            'property': pid, 'kind': 'failing-input', 'seed': seed, 'tier': tier, 'repo_head': repo_head(),
            'ops': small, 'first_difference': {'step': dd.step, 'line': dd.line, 'reason': dd.reason,
                                               'observed_impl': dd.robs[:2000], 'model_and_spec': dd.mobs[:2000]},
            'shrunk_from_ops': len(allh[hi]),
            'note': 'the Lean model equals the dense specification by the theorems of Props/%s.lean, so a '
                    'difference between implementation and model on a property observable is a failing input' % pid,
            'how_to_run': './check %s --replay <this file>' % pid})
        violations.append((path, ''))
        if len(violations) >= 5:
            break

    if kernel_rows:
        rows = kernel_rows
        if rows:
            path = write_replay(pid, {
                'property': pid, 'kind': 'failing-input', 'subkind': 'kernel-row', 'seed': seed, 'tier': tier,
                'repo_head': repo_head(), 'ops': [], 'kernel_rows': rows,
                'obligation': [t['name'] for t in lean['theorems'] if not t['ok']],
                'note': 'the helper function(s) named under kernel_rows, CALLED in the tree under test, return '
                        'a value different from the definition of the Lean model (which the property theorems are '
                        'about) on the listed arguments',
                'how_to_run': './check %s --replay <this file>' % pid})
            violations.append((path, ''))
    if lean_broken and not violations:
        bad = [t['name'] for t in lean['theorems'] if not t['ok']]
        path = write_replay(pid, {
            'property': pid, 'kind': 'broken-obligation', 'seed': seed, 'tier': tier, 'repo_head': repo_head(),
            'obligation': bad, 'forbidden_tokens': forbidden, 'lean_log': lean['log'], 'generated': gen_info,
            'ops': [], 'searched_histories': len(allh),
            'note': 'the theorem(s) or generated obligation(s) above no longer check; a directed search over '
                    '%d histories found no input on which implementation and specification differ' % len(allh)})
        violations.append((path, ' no-failing-input-found'))

    wall = time.time() - t0
    samples = [h[:12] for h in hists[:2]]
    ev = {
        'property_id': pid, 'tier': tier, 'seed': seed, 'level': 'proof',
        'coverage': {
            'obligations': max(obligations, 1) if not args.no_lean else 1,
            'discharged': discharged,
            'checker_cmd': 'cd lean && lake build %s && lake env lean Audit/%s.lean' % (' '.join(leanaudit.prop_modules(pid)), pid),
            'trusted_base': [
                'Lean 4.33.0 kernel',
                'axioms allowed: propext, Classical.choice, Quot.sound (audited per theorem, listed under theorems)',
                'hand-written Lean model tied to /repo by the correspondence run of this check (see evaluations)',
                'numpy / hpgeom / astropy primitives as assumed in lean/HealSparse/Model (exercised, not verified)',
            ] + list(getattr(mod, 'TRUSTED', [])),
            'theorems': lean['theorems'],
            'forbidden_tokens': forbidden,
            'leanchecker': leanchecker,
            'generated': gen_info,
            'evaluations': len(allh),
            'distinct_nontrivial': len(nontriv),
            'rule': mod.RULE,
            'samples': samples,
            'steps_compared': stats.steps,
            'discarded_inexact': stats.discarded,
            'model_rejects_impl_accepts_drift': stats.drift,
            'literal_state_agreement': (stats.lit_agree / stats.lit_total) if stats.lit_total else None,
            'state_exports_checked_by_lean': stats.lit_total,
            'distribution': {'ops': dict(stats.ops), 'kinds': dict(stats.kinds), 'error_kinds': dict(stats.errs)},
            'corpus_histories': len(corpus),
            'known_findings_reproduced': known_lines,
            'extra': extra,
            'rationals_matched_by_exact_rounding': core.EXACT_RATIONAL_MATCHES,
            'file_variants_applied': file_variants_applied(),
            'generator_retries': gen_retries,
            'exhaustive': False,
        },
        'assumptions': list(getattr(mod, 'ASSUMPTIONS', [])),
        'wall_s': round(wall, 2),
        'violations': len(violations),
    }
    # evidence describes /repo only: no file from a debugging run without the Lean side, nor from a run
    # against a scratch worktree (HS_REPO)
    if not args.no_lean and os.path.realpath(os.environ.get('HS_REPO', '/repo')) == '/repo':
        write_evidence(pid, ev)
    for l in known_lines:
        print(l)
    print("%s tier=%s seed=%d: theorems %d/%d, histories %d (non-trivial %d), steps %d, %.1fs" % (
        pid, tier, seed, discharged, obligations, len(allh), len(nontriv), stats.steps, wall))
    if violations:
        for path, suffix in violations:
            print("VIOLATION property=%s replay=%s%s" % (pid, path, suffix))
        return 1
    return 0


if __name__ == '__main__':
    try:
        rc = main()
        if os.environ.get('VERIF_LINECOV'):
            linecov.dump(os.path.join(os.environ['VERIF_LINECOV'], sys.argv[1] + '.json'))
        sys.exit(rc)
    except SystemExit:
        raise
    except Exception:
        traceback.print_exc()
        sys.exit(2)
