import HealSparse.Props.C15
#print axioms HS.C15.upgrade_spec
#print axioms HS.C15.degrade_upgrade_id
#print axioms HS.C15.fracdet_eq
#print axioms HS.C15.fracdet_cov_eq_coverage_map
