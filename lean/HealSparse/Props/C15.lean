/-
  C15 — changing resolution is consistent: upgrade, finer-pixel lookup, fracdet.
  Property theorems only (helpers in HealSparse/Lemmas).
-/
import HealSparse.Lemmas.Core
import HealSparse.Lemmas.Coverage
import HealSparse.Lemmas.Valid
import HealSparse.Lemmas.Resolution
import HealSparse.Model.Resolution
import HealSparse.Props.C04
import HealSparse.Props.C02
import HealSparse.Props.C07
import HealSparse.Lemmas.ApiResolution
namespace HS
namespace C15

variable {V W : Type} [DecidableEq V] [DecidableEq W]

/-- configuration of the finer map -/
def upCfg (c : Cfg) (g : Nat) : Cfg := ⟨c.ncov, c.shift + g⟩

/-- **upgrade** replicates each pixel's value (or invalidity) to all of its children, yields a
    well-formed map with the same coverage mask, for every block order.  Looking the original
    up with finer pixel numbers (`get_values_pix(x, nside=finer)` reads `abs s (x >>> g)`)
    therefore equals reading the upgraded map. -/
theorem upgrade_spec (c : Cfg) (vc : VCfg V) (s : State V) (g : Nat) (h : Inv c vc s) :
    Inv (upCfg c g) vc (upgradeMap c vc s g) ∧
    (∀ x, x < (upCfg c g).npix → abs (upCfg c g) vc (upgradeMap c vc s g) x = abs c vc s (x >>> g)) ∧
    (∀ k, k < c.ncov → covered (upCfg c g) (upgradeMap c vc s g) k = covered c s k) := by
  exact h.upgrade_spec' g

/-- **degrade ∘ upgrade**: for any reduction that returns `conv v` on `2^g` copies of `v`
    (min, max, median always; mean on exactly representable values) with `conv sentinel` the
    output sentinel, degrading the upgraded map restores the original at every pixel. -/
theorem degrade_upgrade_id (c : Cfg) (vc : VCfg V) (vcOut : VCfg W) (s : State V) (g : Nat)
    (red : List V → W) (conv : V → W) (h : Inv c vc s)
    (hred : ∀ v, red (List.replicate (2 ^ g) v) = conv v) (hsent : conv vc.sentinel = vcOut.sentinel)
    (q : Nat) (hq : q < c.npix) :
    abs (degCfg (upCfg c g) g) vcOut
        (degradeMap (upCfg c g) vc (upgradeMap c vc s g) g red vcOut.sentinel) q
      = conv (abs c vc s q) := by
  exact h.degrade_upgrade_id' g vcOut red conv hred hsent hq

/-- fracdet at any permitted resolution = number of valid children / number of children
    (stated as the count; proved in Props/C02) -/
theorem fracdet_eq (c : Cfg) (vc : VCfg V) (s : State V) (h : Inv c vc s)
    (hv : vc.valid vc.sentinel = false) (g : Nat) (hg : g ≤ c.shift)
    (q : Nat) (hq : q < (C02.fracCfg c g).npix) :
    abs (C02.fracCfg c g) C02.fracVC (fracdetCounts c vc s g) q =
      ((List.range (2 ^ g)).filter fun j => vc.valid (abs c vc s (q * 2 ^ g + j))).length :=
  C02.fracdet_eq c vc s h hv g hg q hq

/-- at coverage resolution fracdet coincides with the coverage-fraction map -/
theorem fracdet_cov_eq_coverage_map (c : Cfg) (vc : VCfg V) (s : State V) (h : Inv c vc s)
    (hv : vc.valid vc.sentinel = false) (k : Nat) (hk : k < c.ncov) :
    (coverageCounts c vc s)[k]? =
      some (abs (C02.fracCfg c c.shift) C02.fracVC (fracdetCounts c vc s c.shift) k) :=
  C02.fracdet_cov_eq_coverageCounts c vc s h hv k hk

/-- non-vacuity: upgrade of a map with shuffled blocks -/
example : (upgradeMap (V := Int) ⟨3, 0⟩ ⟨-1, fun x => x != -1⟩ ⟨#[2, -1, -1], #[-1, 5, 7]⟩ 1).sp
    = #[-1, -1, 5, 5, 7, 7] := by decide +kernel

end C15
end HS

/-! ## API level (campaign E5)

The theorems above are about the generic core (`upgradeMap`, `degradeMap`, `fracdetCounts`) on any
state satisfying `Inv`.  The theorems below are about the API functions themselves — `apiUpgrade`
(Model/ApiRes.lean), the map `fracdet_map` returns as the driver builds it (`fracdetMap`,
Lemmas/ApiResolution.lean = `opFracdet`), and their interplay with `apiDegrade` (Props/C07.lean) —
kinds, sentinels, errors included, for every well-formed map object.

Hypotheses: `upgrade` and fracdet need `m.WF` (fracdet also `m.BlankInvalid`, which `KindOk` gives);
the theorems that go through `degrade` need `m.Ok`, as Props/C07.lean does. -/
namespace HS
namespace C15

open ApiResolution ApiDegrade WFApi C07

/-! ### (1) `upgrade` -/

/-- **errors of `upgrade`, exactly**: `ValueError` iff the target order is not strictly finer
    (`nside_out ≤ nside_sparse`: "use degrade"); otherwise `NotImplementedError` iff the map is a
    wide mask or bit-packed; nothing else ever fails (records, booleans, every sentinel are
    accepted; the storage is never looked at) -/
theorem api_upgrade_error_iff (m : MapObj) (o : Nat) (e : Err) :
    apiUpgrade m o = .error e ↔
      (o ≤ m.spord ∧ e = .value) ∨ (m.spord < o ∧ upgradeRefuses m.kind = true ∧ e = .notImpl) := by
  rw [apiUpgrade_eq]
  by_cases h1 : o ≤ m.spord
  · simp only [h1, ↓reduceIte, Except.error.injEq, true_and]
    constructor
    · rintro rfl; exact Or.inl rfl
    · rintro (h | ⟨h, _⟩)
      · exact h.symm
      · omega
  · simp only [h1, ↓reduceIte, false_and, false_or]
    have h2 : m.spord < o := by omega
    cases hk : upgradeRefuses m.kind
    · simp
    · simp only [↓reduceIte, Except.error.injEq, h2, true_and]
      exact eq_comm

theorem api_upgrade_ok_iff (m : MapObj) (o : Nat) :
    (∃ m', apiUpgrade m o = .ok m') ↔ m.spord < o ∧ upgradeRefuses m.kind = false := by
  rw [apiUpgrade_eq]
  by_cases h1 : o ≤ m.spord
  · simp only [h1, ↓reduceIte, reduceCtorEq, exists_false, false_iff]
    omega
  · have h2 : m.spord < o := by omega
    cases hk : upgradeRefuses m.kind <;> simp [h1, h2]

/-- **`upgrade` at the API level.**  For a well-formed map (`WF` alone), if `m.upgrade(nside_out)`
    succeeds with `m'`: `m'` is well formed at the same coverage order and the new sparse order,
    KIND AND SENTINEL ARE THOSE OF `m` (whatever the sentinel — not only the defaults), the
    `n_valid` cache is cold, the coverage mask is unchanged, and every fine pixel `c` reads what
    its parent `c >> 2(ordOut - spord)` reads in `m` — value or blank alike. -/
theorem api_upgrade_spec {m m' : MapObj} {o : Nat} (h : m.WF) (hr : apiUpgrade m o = .ok m') :
    m'.WF ∧ m'.covord = m.covord ∧ m'.spord = o ∧ m'.kind = m.kind ∧ m'.sent = m.sent ∧
    m'.view = m.view ∧ m'.cache = none ∧ m.spord < o ∧ apiCovMask m' = apiCovMask m ∧
    ∀ c, c < 12 * 4 ^ o → m'.abs c = m.abs (c >>> upBits m o) := by
  obtain ⟨hlt, _, rfl⟩ := apiUpgrade_ok hr
  obtain ⟨hinv, habs, hcov⟩ := upgrade_view h hlt
  have hle : m.covord ≤ o := Nat.le_trans h.1 (Nat.le_of_lt hlt)
  refine ⟨⟨hle, hinv⟩, rfl, rfl, rfl, rfl, rfl, rfl, hlt, ?_, ?_⟩
  · unfold apiCovMask
    show List.map _ (List.range (cfgOf m.covord o).ncov) = List.map _ (List.range m.c.ncov)
    apply List.map_congr_left
    intro k hk
    exact hcov k (List.mem_range.1 hk)
  · intro c hc
    exact habs c (by rw [cfgOf_npix hle]; exact hc)

/-- `Ok` is preserved as well (`MapObj.Ok = WF ∧ KindOk ∧ SentOK`) -/
theorem api_upgrade_ok {m m' : MapObj} {o : Nat} (h : m.Ok) (hr : apiUpgrade m o = .ok m') : m'.Ok :=
  Ok.apiUpgrade h hr

/-- **validity is replicated to exactly the children**: a fine pixel of the result is valid iff
    its parent is valid in the source -/
theorem api_upgrade_valid {m m' : MapObj} {o : Nat} (h : m.WF) (hr : apiUpgrade m o = .ok m')
    (c : Nat) (hc : c < 12 * 4 ^ o) :
    m'.vc.valid (m'.abs c) = m.vc.valid (m.abs (c >>> upBits m o)) := by
  obtain ⟨_, _, _, hk, hs, _, _, _, _, habs⟩ := api_upgrade_spec h hr
  have : m'.vc = m.vc := vc_eq_of hk hs
  rw [this, habs c hc]

/-- the same, read from the parent: each of the `4^(ordOut - spord)` children of pixel `p` holds
    the value of `p` -/
theorem api_upgrade_children {m m' : MapObj} {o : Nat} (h : m.WF) (hr : apiUpgrade m o = .ok m')
    (p : Nat) (hp : p < m.npix) (c : Nat) (hc : c ∈ childPix m' m.spord p) : m'.abs c = m.abs p := by
  obtain ⟨hwf', hco, hso, _, _, _, _, hlt, _, habs⟩ := api_upgrade_spec h hr
  have hsh : c >>> upBits m o = p := by
    have := mem_childPix.1 hc
    rw [hso] at this
    exact this
  have hc' : c < 12 * 4 ^ o := by
    have := childPix_lt (m := m') (ordOut := m.spord) (q := p) (by rw [hco]; exact h.1)
      (by rw [hso]; omega) (by rw [hco, cfgOf_npix h.1]; rw [show m.npix = 12 * 4 ^ m.spord from cfgOf_npix h.1] at hp; exact hp) hc
    rw [show m'.npix = 12 * 4 ^ m'.spord from cfgOf_npix hwf'.1, hso] at this
    exact this
  rw [habs c hc', hsh]

/-- **finer-pixel lookup = lookup in the upgraded map**: `get_values_pix(pixels, nside=finer)`
    shifts the pixel numbers and reads `m`; it answers — values and `IndexError` alike — what
    `get_values_pix(pixels)` of the upgraded map answers -/
theorem api_upgrade_get {m m' : MapObj} {o : Nat} (h : m.WF) (hr : apiUpgrade m o = .ok m')
    (pix : List Nat) : apiGet m' pix = apiGet m (pix.map (· >>> upBits m o)) := by
  obtain ⟨hwf', hco, hso, _, _, _, _, hlt, _, habs⟩ := api_upgrade_spec h hr
  have hn' : m'.npix = 12 * 4 ^ o := by
    rw [show m'.npix = 12 * 4 ^ m'.spord from cfgOf_npix hwf'.1, hso]
  have hn : m.npix = 12 * 4 ^ m.spord := cfgOf_npix h.1
  have hpow : 12 * 4 ^ o = 12 * 4 ^ m.spord * 2 ^ upBits m o := by
    unfold upBits
    rw [Nat.pow_mul, show (2 : Nat) ^ 2 = 4 from rfl, Nat.mul_assoc, ← Nat.pow_add]
    congr 2
    omega
  have hiff : ∀ c, c ≥ m'.npix ↔ c >>> upBits m o ≥ m.npix := by
    intro c
    rw [hn', hn, hpow, Nat.shiftRight_eq_div_pow, ge_iff_le, ge_iff_le,
      Nat.le_div_iff_mul_le (Nat.two_pow_pos _)]
  unfold apiGet
  have hany : (pix.any fun c => decide (c ≥ m'.npix)) =
      ((pix.map (· >>> upBits m o)).any fun c => decide (c ≥ m.npix)) := by
    rw [List.any_map]
    congr 1
    funext c
    simp only [Function.comp_apply]
    exact decide_eq_decide.2 (hiff c)
  rw [hany]
  split
  · rfl
  · rename_i hno
    congr 1
    rw [List.map_map]
    apply List.map_congr_left
    intro c hc
    simp only [Function.comp_apply]
    apply habs
    rw [← hn']
    apply Nat.lt_of_not_le
    intro hge
    apply hno
    rw [← hany, List.any_eq_true]
    exact ⟨c, hc, by simpa using hge⟩

/-! ### (2) `degrade ∘ upgrade` -/

/-- **degrade of an upgraded map, every float reduction** (plain maps — floats, integers,
    booleans; `and`/`or` on integers and `wmean` apart).  Let `u = m.upgrade(o)` and
    `d = u.degrade(nside_sparse of m, red)`.  Then `d` sits at the resolutions of `m`, its kind is
    the FLOAT kind of the reduction (`auxDT`: float32 stays, everything else becomes float64) with
    the default sentinel UNSEEN — NOT the kind and sentinel of `m` when `m` is an integer map or
    has another sentinel — and pixel `q` holds
    * where `m` is valid: the nan-reduction of `4^(o - spord)` COPIES of the value of `m`;
    * where `m` is not valid but covered: the reduction of nothing (`NaN` → UNSEEN for mean,
      median, std, max, min; `0.0` for sum, `1.0` for prod — VALID pixels that `m` did not have);
    * outside the coverage: UNSEEN. -/
theorem api_degrade_upgrade_value {m u d : MapObj} {dt : DT} {o : Nat} {red : String}
    {w : Option MapObj} (h : m.Ok) (hk : m.kind = .plain dt)
    (hc : (dt.isInt && isAndOr red) = false) (hnw : (red == "wmean") = false)
    (hu : apiUpgrade m o = .ok u) (hr : apiDegrade u m.spord red w = .ok d) :
    d.covord = m.covord ∧ d.spord = m.spord ∧
    d.kind = .plain (auxDT dt) ∧ d.sent = (auxDT dt).defaultSentinel ∧
    ∀ q, q < m.npix → d.abs q =
      if m.vc.valid (m.abs q) then
        fltOut (auxDT dt) (reduceVals red (List.replicate (4 ^ (o - m.spord)) (m.abs q).numD) [] [])
      else if covered m.c m.st (q >>> m.c.shift) then fltOut (auxDT dt) (reduceVals red [] [] [])
      else (auxDT dt).defaultSentinel := by
  obtain ⟨hwfu, hco, hso, hku, hsu, _, _, hlt, hcm, habs⟩ := api_upgrade_spec h.1 hu
  have huok : u.Ok := Ok.apiUpgrade h hu
  have hvc : u.vc = m.vc := vc_eq_of hku hsu
  have hlt' : m.spord < u.spord := by rw [hso]; exact hlt
  obtain ⟨_, hsp, hcv, _, _⟩ := api_degrade_layout huok hr
  have hnpix : m.npix = 12 * 4 ^ m.spord := cfgOf_npix h.1.1
  obtain ⟨hkd, hsd, _⟩ := api_degrade_float huok (hku.trans hk) hc hnw hlt' hr 0
    (Nat.mul_pos (by decide) (Nat.pow_pos (by decide)))
  refine ⟨by rw [hcv, hco]; exact Nat.min_eq_left h.1.1, hsp, hkd, hsd, ?_⟩
  intro q hq
  obtain ⟨_, _, hval⟩ := api_degrade_float huok (hku.trans hk) hc hnw hlt' hr q (by rw [← hnpix]; exact hq)
  have hch : ∀ c, c ∈ childPix u m.spord q → u.abs c = m.abs q :=
    fun c hc => api_upgrade_children h.1 hu q hq c hc
  have hcov : covered u.c u.st (q >>> (2 * (m.spord - u.covord))) = covered m.c m.st (q >>> m.c.shift) := by
    rw [hco]
    show covered u.c u.st (q >>> m.c.shift) = _
    have hk' : q >>> m.c.shift < m.c.ncov := covpix_lt m.c q hq
    have := congrArg (fun l => l[q >>> m.c.shift]?) hcm
    unfold apiCovMask at this
    have hnc : u.c.ncov = m.c.ncov := by unfold MapObj.c; rw [hco]; rfl
    simp only [List.getElem?_map, hnc, List.getElem?_range hk', Option.map_some, Option.some.injEq] at this
    exact this
  rw [hval, live_const hch (by rw [hco]; exact h.1.1), validChildren_const hch, hvc, hcov, hso]
  cases hv : m.vc.valid (m.abs q) with
  | true => simp
  | false =>
    simp only [Bool.false_or, Bool.false_eq_true, if_false]

/-- **max, min: the value comes back EXACTLY** (as the same numeral, in the float kind of the
    reduction); an invalid pixel comes back UNSEEN -/
theorem api_degrade_upgrade_maxmin {m u d : MapObj} {dt : DT} {o : Nat} {red : String}
    {w : Option MapObj} (h : m.Ok) (hk : m.kind = .plain dt) (hred : red = "max" ∨ red = "min")
    (hu : apiUpgrade m o = .ok u) (hr : apiDegrade u m.spord red w = .ok d) (q : Nat)
    (hq : q < m.npix) :
    d.abs q =
      if m.vc.valid (m.abs q) then fltOut (auxDT dt) (some (.num (m.abs q).numD.1 (m.abs q).numD.2))
      else (auxDT dt).defaultSentinel := by
  have hao : isAndOr red = false := by rcases hred with rfl | rfl <;> rfl
  have hnw : (red == "wmean") = false := by rcases hred with rfl | rfl <;> rfl
  obtain ⟨_, _, _, _, habs⟩ := api_degrade_upgrade_value h hk (by rw [hao, Bool.and_false]) hnw hu hr
  rw [habs q hq]
  have hpos : 0 < 4 ^ (o - m.spord) := Nat.pow_pos (by decide)
  have hnil : reduceVals red [] [] [] = none := by rcases hred with rfl | rfl <;> rfl
  rw [hnil, fltOut_none]
  rcases hred with rfl | rfl
  · rw [reduce_max_replicate _ _ hpos]; split <;> simp
  · rw [reduce_min_replicate _ _ hpos]; split <;> simp

/-- **mean, median: the value comes back as the same NUMBER in canonical form** (`normVal`: the
    model stores dyadics un-normalised, `mean`/`median` return normal forms; on a normalised
    cell — every cell the library can hold — it is the same cell) -/
theorem api_degrade_upgrade_mean_median {m u d : MapObj} {dt : DT} {o : Nat} {red : String}
    {w : Option MapObj} (h : m.Ok) (hk : m.kind = .plain dt) (hred : red = "mean" ∨ red = "median")
    (hu : apiUpgrade m o = .ok u) (hr : apiDegrade u m.spord red w = .ok d) (q : Nat)
    (hq : q < m.npix) :
    d.abs q =
      if m.vc.valid (m.abs q) then
        fltOut (auxDT dt) (some (normVal (.num (m.abs q).numD.1 (m.abs q).numD.2)))
      else (auxDT dt).defaultSentinel := by
  have hao : isAndOr red = false := by rcases hred with rfl | rfl <;> rfl
  have hnw : (red == "wmean") = false := by rcases hred with rfl | rfl <;> rfl
  obtain ⟨_, _, _, _, _, _, _, hlt, _, _⟩ := api_upgrade_spec h.1 hu
  obtain ⟨_, _, _, _, habs⟩ := api_degrade_upgrade_value h hk (by rw [hao, Bool.and_false]) hnw hu hr
  rw [habs q hq]
  have hnil : reduceVals red [] [] [] = none := by rcases hred with rfl | rfl <;> rfl
  rw [hnil, fltOut_none, four_pow]
  obtain ⟨g, hg⟩ : ∃ g, 2 * (o - m.spord) = g + 1 := ⟨2 * (o - m.spord) - 1, by omega⟩
  rcases hred with rfl | rfl
  · rw [reduce_mean_replicate]; split <;> simp
  · rw [hg, reduce_median_replicate]; split <;> simp

/-- **THE ROUND TRIP for floating-point maps**: a float map with the default sentinel whose valid
    cells are normalised and representable in its precision comes back CONTENT-EQUAL under mean,
    median, max, min: same resolutions, same kind, same sentinel, same value at every pixel -/
theorem api_degrade_upgrade_roundtrip {m u d : MapObj} {b : Nat} {o : Nat} {red : String}
    {w : Option MapObj} (h : m.Ok) (hk : m.kind = .plain (.flt b))
    (hs : m.sent = (DT.flt b).defaultSentinel)
    (hcell : ∀ q, q < m.npix → m.vc.valid (m.abs q) = true →
      ∃ n e, m.abs q = .num n e ∧ dyNorm n e = (n, e) ∧ (Val.num n e).fits (.flt b) = true)
    (hred : red = "mean" ∨ red = "median" ∨ red = "max" ∨ red = "min")
    (hu : apiUpgrade m o = .ok u) (hr : apiDegrade u m.spord red w = .ok d) :
    d.covord = m.covord ∧ d.spord = m.spord ∧ d.kind = m.kind ∧ d.sent = m.sent ∧
    ∀ q, q < m.npix → d.abs q = m.abs q := by
  have hao : isAndOr red = false := by rcases hred with rfl | rfl | rfl | rfl <;> rfl
  have hnw : (red == "wmean") = false := by rcases hred with rfl | rfl | rfl | rfl <;> rfl
  obtain ⟨h1, h2, h3, h4, _⟩ := api_degrade_upgrade_value h hk (by rw [hao, Bool.and_false]) hnw hu hr
  refine ⟨h1, h2, by rw [h3, hk]; rfl, by rw [h4, hs]; rfl, ?_⟩
  intro q hq
  cases hv : m.vc.valid (m.abs q) with
  | false =>
    have hsent : m.abs q = m.sent := by
      unfold MapObj.vc at hv
      rw [hk] at hv
      exact eq_of_beq (by simpa [Kind.valid] using hv)
    have : d.abs q = (auxDT (.flt b)).defaultSentinel := by
      rcases hred with hred | hred | hred | hred
      · rw [api_degrade_upgrade_mean_median h hk (Or.inl hred) hu hr q hq, hv]; rfl
      · rw [api_degrade_upgrade_mean_median h hk (Or.inr hred) hu hr q hq, hv]; rfl
      · rw [api_degrade_upgrade_maxmin h hk (Or.inl hred) hu hr q hq, hv]; rfl
      · rw [api_degrade_upgrade_maxmin h hk (Or.inr hred) hu hr q hq, hv]; rfl
    rw [this, hsent, hs]
    rfl
  | true =>
    obtain ⟨n, e, hne, hnorm, hfit⟩ := hcell q hq hv
    have hnv : normVal (.num n e) = .num n e := by
      show Val.num (dyNorm n e).1 (dyNorm n e).2 = _
      rw [hnorm]
    have hfo : fltOut (auxDT (.flt b)) (some (.num n e)) = .num n e := by
      show (if (Val.num n e).fits (.flt b) = true then Val.num n e else .poison) = _
      rw [if_pos hfit]
    rcases hred with hred | hred | hred | hred
    · rw [api_degrade_upgrade_mean_median h hk (Or.inl hred) hu hr q hq, hv, hne]
      show fltOut _ (some (normVal (.num n e))) = _
      rw [hnv, hfo]
    · rw [api_degrade_upgrade_mean_median h hk (Or.inr hred) hu hr q hq, hv, hne]
      show fltOut _ (some (normVal (.num n e))) = _
      rw [hnv, hfo]
    · rw [api_degrade_upgrade_maxmin h hk (Or.inl hred) hu hr q hq, hv, hne]
      exact hfo
    · rw [api_degrade_upgrade_maxmin h hk (Or.inr hred) hu hr q hq, hv, hne]
      exact hfo

/-- **integer maps do NOT come back as they were**: the values return as the same numbers, but
    in a float64 map whose sentinel is UNSEEN (`outKind_rules`), whatever the integer dtype and
    sentinel of `m`; an invalid pixel reads UNSEEN, not the sentinel of `m` -/
theorem api_degrade_upgrade_int {m u d : MapObj} {b : Nat} {sg : Bool} {o : Nat} {red : String}
    {w : Option MapObj} (h : m.Ok) (hk : m.kind = .plain (.int b sg))
    (hred : red = "mean" ∨ red = "median" ∨ red = "max" ∨ red = "min")
    (hu : apiUpgrade m o = .ok u) (hr : apiDegrade u m.spord red w = .ok d) :
    d.kind = .plain (.flt 64) ∧ d.sent = .num unseen64 0 ∧
    ∀ q, q < m.npix →
      (m.vc.valid (m.abs q) = false → d.abs q = .num unseen64 0) ∧
      (∀ n, m.abs q = .num n 0 → m.vc.valid (m.abs q) = true →
        d.abs q = fltOut (.flt 64) (some (.num n 0))) := by
  have hao : isAndOr red = false := by rcases hred with rfl | rfl | rfl | rfl <;> rfl
  have hnw : (red == "wmean") = false := by rcases hred with rfl | rfl | rfl | rfl <;> rfl
  obtain ⟨_, _, h3, h4, _⟩ := api_degrade_upgrade_value h hk (by rw [hao, Bool.and_false]) hnw hu hr
  refine ⟨h3, h4, ?_⟩
  intro q hq
  have hnv : ∀ n : Int, normVal (.num n 0) = .num n 0 := fun n => rfl
  constructor
  · intro hv
    rcases hred with hred | hred | hred | hred
    · rw [api_degrade_upgrade_mean_median h hk (Or.inl hred) hu hr q hq, hv]; rfl
    · rw [api_degrade_upgrade_mean_median h hk (Or.inr hred) hu hr q hq, hv]; rfl
    · rw [api_degrade_upgrade_maxmin h hk (Or.inl hred) hu hr q hq, hv]; rfl
    · rw [api_degrade_upgrade_maxmin h hk (Or.inr hred) hu hr q hq, hv]; rfl
  · intro n hn hv
    rcases hred with hred | hred | hred | hred
    · rw [api_degrade_upgrade_mean_median h hk (Or.inl hred) hu hr q hq, hv, hn]; rfl
    · rw [api_degrade_upgrade_mean_median h hk (Or.inr hred) hu hr q hq, hv, hn]; rfl
    · rw [api_degrade_upgrade_maxmin h hk (Or.inl hred) hu hr q hq, hv, hn]; rfl
    · rw [api_degrade_upgrade_maxmin h hk (Or.inr hred) hu hr q hq, hv, hn]; rfl

/-- **sum, prod, std are NOT the identity on an upgraded map** — what they give, exactly:
    * `sum`: `4^(o-spord) · value` at a valid pixel, and `0.0` — a VALID pixel `m` did not have —
      at every covered pixel that is not valid in `m`;
    * `prod`: `value ^ 4^(o-spord)`, and `1.0` at the covered invalid pixels;
    * `std`: `0.0` at every valid pixel (a valid value), UNSEEN elsewhere. -/
theorem api_degrade_upgrade_sum_prod_std {m u d : MapObj} {dt : DT} {o : Nat}
    {w : Option MapObj} (h : m.Ok) (hk : m.kind = .plain dt) (hu : apiUpgrade m o = .ok u)
    (q : Nat) (hq : q < m.npix) :
    (apiDegrade u m.spord "sum" w = .ok d → d.abs q =
      if m.vc.valid (m.abs q) then
        fltOut (auxDT dt) (some (normVal (.num (((4 ^ (o - m.spord) : Nat) : Int) * (m.abs q).numD.1)
          (m.abs q).numD.2)))
      else if covered m.c m.st (q >>> m.c.shift) then .num 0 0 else (auxDT dt).defaultSentinel) ∧
    (apiDegrade u m.spord "prod" w = .ok d → d.abs q =
      if m.vc.valid (m.abs q) then
        fltOut (auxDT dt) (some (.ofDy (dyPowNat (m.abs q).numD (4 ^ (o - m.spord)))))
      else if covered m.c m.st (q >>> m.c.shift) then .num 1 0 else (auxDT dt).defaultSentinel) ∧
    (apiDegrade u m.spord "std" w = .ok d → d.abs q =
      if m.vc.valid (m.abs q) then .num 0 0 else (auxDT dt).defaultSentinel) := by
  have hpos : 0 < 4 ^ (o - m.spord) := Nat.pow_pos (by decide)
  refine ⟨fun hr => ?_, fun hr => ?_, fun hr => ?_⟩
  · obtain ⟨_, _, _, _, habs⟩ := api_degrade_upgrade_value (red := "sum") h hk
      (by rw [show isAndOr "sum" = false from rfl, Bool.and_false]) rfl hu hr
    rw [habs q hq, reduce_sum_replicate _ _ hpos, reduceVals_nil_sum, fltOut_zero]
    rfl
  · obtain ⟨_, _, _, _, habs⟩ := api_degrade_upgrade_value (red := "prod") h hk
      (by rw [show isAndOr "prod" = false from rfl, Bool.and_false]) rfl hu hr
    rw [habs q hq, reduce_prod_replicate, reduceVals_nil_prod, fltOut_one]
  · obtain ⟨_, _, _, _, habs⟩ := api_degrade_upgrade_value (red := "std") h hk
      (by rw [show isAndOr "std" = false from rfl, Bool.and_false]) rfl hu hr
    rw [habs q hq, reduce_std_replicate _ _ hpos, show reduceVals "std" [] [] [] = none from rfl,
      fltOut_none, fltOut_zero]
    split <;> simp

/-! ### (3) fracdet -/

/-- **`fracdet_map` at the API level.**  For a well-formed map whose blank cell is invalid and
    `covord ≤ ord ≤ spord`, the map `F = fracdetMap m ord` the driver binds is `Ok` (a float64
    map with sentinel `0.0` at sparse order `ord`), has the coverage mask of `m`, and at every
    coarse pixel `q` holds the EXACT dyadic `count / 4^(spord-ord)` (`fracCell`), `count` being the
    number of valid children of `q` in `m`; since the sentinel of a fracdet map is `0.0`, `F` is
    valid at `q` iff `count > 0` — a COVERED coarse pixel without a valid child reads `0.0` and
    is NOT valid (validity of `F` is "has a valid child", not "is covered"). -/
theorem api_fracdet_spec {m : MapObj} (h : m.WF) (hv : m.BlankInvalid) {ord : Nat}
    (hlo : m.covord ≤ ord) (hhi : ord ≤ m.spord) :
    (fracdetMap m ord).Ok ∧ apiCovMask (fracdetMap m ord) = apiCovMask m ∧
    ∀ q, q < 12 * 4 ^ ord →
      (fracdetMap m ord).abs q = fracCell (fracCount m ord q) (2 * (m.spord - ord)) ∧
      ((fracdetMap m ord).vc.valid ((fracdetMap m ord).abs q) = true ↔ 0 < fracCount m ord q) := by
  refine ⟨⟨WF.fracdet_partial h hv hlo hhi, kindOk_plain rfl (fun hd => nomatch hd),
    MapObj.sentOK_of_plain rfl⟩, ?_, ?_⟩
  · unfold apiCovMask
    apply List.map_congr_left
    intro k hk
    exact fracdetMap_covered h hlo hhi (List.mem_range.1 hk)
  · intro q hq
    refine ⟨fracdetMap_abs h hv hlo hhi hq, ?_⟩
    rw [fracdetMap_valid h hv hlo hhi hq]
    simp

/-- what the stored cell means: it is a numeral `a / 2^e` with `a / 2^e = count / 2^g`,
    `g = 2(spord-ord)`, and `count ≤ 4^(spord-ord)` -/
theorem api_fracdet_meaning {m : MapObj} (h : m.WF) (hv : m.BlankInvalid) {ord : Nat}
    (hlo : m.covord ≤ ord) (hhi : ord ≤ m.spord) (q : Nat) (hq : q < 12 * 4 ^ ord) :
    ∃ a e, (fracdetMap m ord).abs q = .num a e ∧
      a * 2 ^ (2 * (m.spord - ord)) = (fracCount m ord q : Int) * 2 ^ e ∧
      fracCount m ord q ≤ 4 ^ (m.spord - ord) := by
  have := fracdetMap_abs h hv hlo hhi hq
  exact ⟨_, _, this, fracCell_spec _ _ rfl, fracCount_le m ord q⟩

/-- a covered coarse pixel without any valid child reads `0.0`, the sentinel: not valid -/
theorem api_fracdet_unset {m : MapObj} (h : m.WF) (hv : m.BlankInvalid) {ord : Nat}
    (hlo : m.covord ≤ ord) (hhi : ord ≤ m.spord) (q : Nat) (hq : q < 12 * 4 ^ ord)
    (hnil : validChildren m ord q = []) :
    (fracdetMap m ord).abs q = .num 0 0 ∧
      (fracdetMap m ord).vc.valid ((fracdetMap m ord).abs q) = false := by
  have h0 : fracCount m ord q = 0 := by unfold fracCount; rw [hnil]; rfl
  obtain ⟨_, _, hpix⟩ := api_fracdet_spec h hv hlo hhi
  obtain ⟨ha, hval⟩ := hpix q hq
  refine ⟨by rw [ha, h0, fracCell_zero], ?_⟩
  rw [Bool.eq_false_iff]
  intro hc
  have := hval.1 hc
  omega

/-- **at the coverage resolution** the fracdet map is the coverage map: `coverage_map[k] · nfine`
    (the `covmap` observation, `coverageCounts`) is the count the fracdet cell encodes -/
theorem api_fracdet_at_covord {m : MapObj} (h : m.WF) (hv : m.BlankInvalid) (k : Nat)
    (hk : k < m.c.ncov) :
    (coverageCounts m.c m.vc m.st)[k]? = some (fracCount m m.covord k) ∧
    (fracdetMap m m.covord).abs k = fracCell (fracCount m m.covord k) m.c.shift := by
  have hk' : k < 12 * 4 ^ m.covord := by
    have : m.c.ncov = 12 * 4 ^ m.covord := rfl
    omega
  refine ⟨?_, fracdetMap_abs h hv (Nat.le_refl _) h.1 hk'⟩
  rw [fracdet_cov_eq_coverage_map m.c m.vc m.st h.2 hv k hk]
  congr 1
  have hq : k < (C02.fracCfg m.c m.c.shift).npix := by
    simp [C02.fracCfg, Cfg.npix, Cfg.nfine, hk]
  rw [fracdet_eq m.c m.vc m.st h.2 hv m.c.shift (Nat.le_refl _) k hq]
  exact filter_range_children m m.covord k

/-- **at the map's own resolution** the fracdet map is the indicator of validity -/
theorem api_fracdet_at_spord {m : MapObj} (h : m.WF) (hv : m.BlankInvalid) (p : Nat)
    (hp : p < m.npix) :
    (fracdetMap m m.spord).abs p = if m.vc.valid (m.abs p) then .num 1 0 else .num 0 0 := by
  have hp' : p < 12 * 4 ^ m.spord := by rw [← cfgOf_npix h.1]; exact hp
  rw [fracdetMap_abs h hv h.1 (Nat.le_refl _) hp', fracCount_self, Nat.sub_self]
  cases m.vc.valid (m.abs p) <;> rfl

/-- **additivity**: the count at order `o` is the sum of the counts of the four children at
    order `o+1` … -/
theorem api_fracdet_additive {m : MapObj} {o : Nat} (ho : o < m.spord) (q : Nat) :
    fracCount m o q = fracCount m (o + 1) (4 * q) + fracCount m (o + 1) (4 * q + 1) +
      fracCount m (o + 1) (4 * q + 2) + fracCount m (o + 1) (4 * q + 3) :=
  fracCount_add ho q

/-- … hence **the fracdet value at order `o` is the MEAN of the four children's fracdet values at
    order `o+1`** — numpy's plain mean over ALL FOUR of them, zeros included (contrast
    `api_degrade_fracdet` below) -/
theorem api_fracdet_mean {m : MapObj} (h : m.WF) (hv : m.BlankInvalid) {o : Nat}
    (hlo : m.covord ≤ o) (ho : o < m.spord) (q : Nat) (hq : q < 12 * 4 ^ o) :
    reduceVals "mean" ((List.range 4).map fun i => ((fracdetMap m (o + 1)).abs (4 * q + i)).numD) [] []
      = some ((fracdetMap m o).abs q) := by
  have hq4 : ∀ i, i < 4 → 4 * q + i < 12 * 4 ^ (o + 1) := by
    intro i hi; rw [Nat.pow_succ]; omega
  have e : ∀ i, i < 4 → ((fracdetMap m (o + 1)).abs (4 * q + i)).numD
      = dyNorm (fracCount m (o + 1) (4 * q + i) : Int) (2 * (m.spord - (o + 1))) := by
    intro i hi
    rw [fracdetMap_abs h hv (by omega) (by omega) (hq4 i hi)]
    rfl
  have hl : (List.range 4).map (fun i => ((fracdetMap m (o + 1)).abs (4 * q + i)).numD) =
      [dyNorm (fracCount m (o + 1) (4 * q) : Int) (2 * (m.spord - (o + 1))),
       dyNorm (fracCount m (o + 1) (4 * q + 1) : Int) (2 * (m.spord - (o + 1))),
       dyNorm (fracCount m (o + 1) (4 * q + 2) : Int) (2 * (m.spord - (o + 1))),
       dyNorm (fracCount m (o + 1) (4 * q + 3) : Int) (2 * (m.spord - (o + 1)))] := by
    simp only [List.range_succ, List.range_zero, List.nil_append, List.cons_append, List.map_cons,
      List.map_nil]
    rw [e 0 (by decide), e 1 (by decide), e 2 (by decide), e 3 (by decide)]
    rfl
  rw [hl, mean4, fracdetMap_abs h hv hlo (by omega) hq, fracCount_add ho q]
  have hg : 2 * (m.spord - (o + 1)) + 2 = 2 * (m.spord - o) := by omega
  rw [hg]
  unfold fracCell
  push_cast
  rfl

/-! #### degrading a fracdet map is NOT the fracdet map at the coarser resolution

The docstring of `fracdet_map` says: "To get a fracdet_map at a lower resolution, use the degrade
method with the default 'mean' reduction."  `degrade` masks the pixels that hold the sentinel —
for a fracdet map that is `0.0`, i.e. exactly the pixels with NO valid sub-pixel — so its mean
runs over the NON-ZERO children only and over-estimates the fraction whenever a child is empty;
and the result has the sentinel UNSEEN instead of `0.0`.  (Evaluated counterexample below; checked
on the real library: one valid pixel at nside 32 gives `fracdet_map(16)[0] = 0.25`,
`fracdet_map(8)[0] = 0.0625`, but `fracdet_map(16).degrade(8)[0] = 0.25`.) -/

/-- what `degrade(mean)` of the fracdet map at order `o+1` gives at order `o`: a float64 map with
    sentinel UNSEEN (not `0.0`); a coarse pixel none of whose four children has a valid sub-pixel
    reads UNSEEN; any other holds the mean over the children WITH a valid sub-pixel only -/
theorem api_degrade_fracdet {m d : MapObj} (h : m.WF) (hv : m.BlankInvalid) {o : Nat}
    (hlo : m.covord ≤ o) (ho : o < m.spord) {w : Option MapObj}
    (hr : apiDegrade (fracdetMap m (o + 1)) o "mean" w = .ok d) (q : Nat) (hq : q < 12 * 4 ^ o) :
    d.kind = .plain (.flt 64) ∧ d.sent = .num unseen64 0 ∧
    (validChildren (fracdetMap m (o + 1)) o q = [] → d.abs q = .num unseen64 0) ∧
    (validChildren (fracdetMap m (o + 1)) o q ≠ [] → d.abs q =
      fltOut (.flt 64) (reduceVals "mean"
        ((validChildren (fracdetMap m (o + 1)) o q).map fun c => ((fracdetMap m (o + 1)).abs c).numD)
        [] [])) ∧
    ∀ c, c ∈ validChildren (fracdetMap m (o + 1)) o q ↔
      c ∈ childPix (fracdetMap m (o + 1)) o q ∧ 0 < fracCount m (o + 1) c := by
  have hF := (api_fracdet_spec h hv (ord := o + 1) (by omega) (by omega))
  have hlt : o < (fracdetMap m (o + 1)).spord := Nat.lt_succ_self o
  obtain ⟨hkd, hsd, _⟩ := api_degrade_float (dt := .flt 64) (red := "mean") hF.1 rfl rfl rfl hlt hr q hq
  obtain ⟨h1, h2⟩ := api_degrade_masked (dt := .flt 64) (red := "mean") hF.1 rfl
    (by simp [maskedReds]) hlt hr q hq
  have key : ∀ c, c ∈ childPix (fracdetMap m (o + 1)) o q → c < 12 * 4 ^ (o + 1) := by
    intro c hc
    have := childPix_lt (m := fracdetMap m (o + 1)) (ordOut := o) (q := q) hlo (Nat.le_succ o)
      (by show q < (cfgOf m.covord o).npix; rw [cfgOf_npix hlo]; exact hq) hc
    rw [show (fracdetMap m (o + 1)).npix = 12 * 4 ^ (o + 1) from
      cfgOf_npix (show m.covord ≤ o + 1 by omega)] at this
    exact this
  refine ⟨hkd, hsd, ?_, h2, ?_⟩
  · intro hnil
    rw [(h1 hnil).1, plain_sentinel hkd, hsd]
    rfl
  · intro c
    unfold validChildren
    rw [List.mem_filter]
    constructor
    · rintro ⟨hc, hval⟩
      refine ⟨hc, ?_⟩
      have hc' := key c hc
      exact ((hF.2.2 c hc').2).1 hval
    · rintro ⟨hc, hpos⟩
      refine ⟨hc, ?_⟩
      have hc' := key c hc
      exact ((hF.2.2 c hc').2).2 hpos

/-- **`…_partial`: degrading the fracdet map agrees with the coarser fracdet map exactly where
    EVERY one of the four children has a valid sub-pixel** (then the masked mean is the plain
    mean); up to the representability of the value in float64 (`fltOut`) -/
theorem api_degrade_fracdet_partial {m d : MapObj} (h : m.WF) (hv : m.BlankInvalid) {o : Nat}
    (hlo : m.covord ≤ o) (ho : o < m.spord) {w : Option MapObj}
    (hr : apiDegrade (fracdetMap m (o + 1)) o "mean" w = .ok d) (q : Nat) (hq : q < 12 * 4 ^ o)
    (hall : ∀ i, i < 4 → 0 < fracCount m (o + 1) (4 * q + i)) :
    d.abs q = fltOut (.flt 64) (some ((fracdetMap m o).abs q)) := by
  obtain ⟨_, _, _, h2, hmem⟩ := api_degrade_fracdet h hv hlo ho hr q hq
  have hcp := childPix_four (fracdetMap m (o + 1)) o q rfl
  have hvc : validChildren (fracdetMap m (o + 1)) o q = (List.range 4).map fun i => 4 * q + i := by
    rw [← hcp]
    unfold validChildren
    rw [List.filter_eq_self]
    intro c hc
    have := (hmem c).2 ⟨hc, by
      rw [hcp] at hc
      obtain ⟨i, hi, rfl⟩ := List.mem_map.1 hc
      exact hall i (List.mem_range.1 hi)⟩
    exact (List.mem_filter.1 this).2
  rw [h2 (by rw [hvc]; simp), hvc, List.map_map]
  have := api_fracdet_mean h hv hlo ho q hq
  rw [show ((fun c => ((fracdetMap m (o + 1)).abs c).numD) ∘ fun i => 4 * q + i)
    = fun i => ((fracdetMap m (o + 1)).abs (4 * q + i)).numD from rfl, this]

/-! ### (4) consistency of `degrade` with fracdet -/

/-- **where a degraded map is valid**: for a plain map and a masked reduction (mean, median, std,
    max, min), `covord ≤ ord < spord`: coarse pixel `q` of the result is valid iff the fracdet map
    is positive there (`q` has a valid child) AND the reduced value is not UNSEEN itself (the
    result's sentinel; see the example below: a map with another sentinel may hold UNSEEN as a
    valid value) -/
theorem api_degrade_valid_iff {m d : MapObj} {dt : DT} {ord : Nat} {red : String}
    {w : Option MapObj} (h : m.Ok) (hk : m.kind = .plain dt) (hred : red ∈ maskedReds)
    (hlo : m.covord ≤ ord) (hlt : ord < m.spord) (hr : apiDegrade m ord red w = .ok d) (q : Nat)
    (hq : q < 12 * 4 ^ ord) :
    d.vc.valid (d.abs q) = true ↔
      (fracdetMap m ord).vc.valid ((fracdetMap m ord).abs q) = true ∧
      fltOut (auxDT dt) (reduceVals red ((validChildren m ord q).map fun p => (m.abs p).numD) [] [])
        ≠ (auxDT dt).defaultSentinel := by
  have hao : isAndOr red = false := by
    simp only [maskedReds, List.mem_cons, List.not_mem_nil, or_false] at hred
    rcases hred with rfl | rfl | rfl | rfl | rfl <;> rfl
  have hnw : (red == "wmean") = false := by
    simp only [maskedReds, List.mem_cons, List.not_mem_nil, or_false] at hred
    rcases hred with rfl | rfl | rfl | rfl | rfl <;> rfl
  obtain ⟨hkd, hsd, _⟩ := api_degrade_float h hk (by rw [hao, Bool.and_false]) hnw hlt hr q hq
  obtain ⟨h1, h2⟩ := api_degrade_masked h hk hred hlt hr q hq
  have hF := ((api_fracdet_spec h.1 h.2.1.blankInvalid hlo (Nat.le_of_lt hlt)).2.2 q hq).2
  rw [hF, fracCount_pos_iff]
  have hvalid : ∀ x, d.vc.valid x = (x != (auxDT dt).defaultSentinel) := by
    intro x; unfold MapObj.vc; rw [hkd, hsd]; rfl
  by_cases hnil : validChildren m ord q = []
  · rw [(h1 hnil).2]
    simp [hnil]
  · rw [h2 hnil, hvalid]
    simp [hnil]

/-- one direction needs no proviso: **a valid pixel of the degraded map has positive fracdet** -/
theorem api_degrade_valid_fracdet {m d : MapObj} {dt : DT} {ord : Nat} {red : String}
    {w : Option MapObj} (h : m.Ok) (hk : m.kind = .plain dt) (hred : red ∈ maskedReds)
    (hlo : m.covord ≤ ord) (hlt : ord < m.spord) (hr : apiDegrade m ord red w = .ok d) (q : Nat)
    (hq : q < 12 * 4 ^ ord) (hval : d.vc.valid (d.abs q) = true) :
    (fracdetMap m ord).vc.valid ((fracdetMap m ord).abs q) = true :=
  ((api_degrade_valid_iff h hk hred hlo hlt hr q hq).1 hval).1

/-! ### the protocol driver -/

/-- `fracdet m r=… ord=…` inside the permitted range answers `ok` and binds `r` to `fracdetMap m ord`
    (the object of `api_fracdet_spec`); outside it answers `err ValueError` and stores nothing -/
theorem op_fracdet {w : World} {a : Args} {n : String} {rest : List String} {m : MapObj}
    {r : String} {ord : Nat} (hpos : a.pos = n :: rest) (hget : w.get? n = some m)
    (hr : a.get? "r" = some r) (ho : a.nat? "ord" = some ord) :
    (m.covord ≤ ord → ord ≤ m.spord →
      (opFracdet w a).2 = "ok" ∧ (opFracdet w a).1.get? r = some (fracdetMap m ord)) ∧
    (ord > m.spord ∨ ord < m.covord → opFracdet w a = (w, errLine .value)) := by
  rw [opFracdet_eq w a n rest m r ord hpos hget hr ho]
  constructor
  · intro hlo hhi
    rw [if_neg (by omega)]
    exact ⟨rfl, get?_bind_self _ _ _⟩
  · intro hbad
    rw [if_pos hbad]

/-- `upg m ord=… r=…`: on success the `r=` name reads the map of `api_upgrade_spec` (owning its
    storage); on an error nothing is stored -/
theorem op_upg {w : World} {a : Args} {n : String} {rest : List String} {m : MapObj} {ord : Nat}
    (hpos : a.pos = n :: rest) (hget : w.get? n = some m) (ho : a.nat? "ord" = some ord) :
    (∀ u, apiUpgrade m ord = .ok u →
      (opUpg w a).2 = "ok" ∧ (opUpg w a).1.get? (a.getD "r" "tmp") = some { u with view := none }) ∧
    (∀ e, apiUpgrade m ord = .error e → opUpg w a = (w, errLine e)) := by
  rw [opUpg_eq w a n rest m ord hpos hget ho]
  constructor
  · intro u hu
    rw [hu]
    exact ⟨rfl, get?_bind_self _ _ _⟩
  · intro e he
    rw [he]


/-! ### non-vacuity and counterexamples (API level) -/

/-- an int16 map with the NON-DEFAULT sentinel 7 (12 coverage pixels × 4 cells; coverage pixel 2
    allocated but empty): pixels 4 ↦ 3, 5 ↦ -2, 40 ↦ 9 -/
def exInt16 : Except Err MapObj := do
  let m ← apiMakeEmpty 0 1 (.plain (.int 16 true)) (some (.num 7 0)) [2]
  apiUpdate m "replace" [4, 5, 40] (some [.num 3 0, .num (-2) 0, .num 9 0]) false

/-- a float64 map (default sentinel; 12 × 16 cells; coverage pixel 3 allocated but empty):
    pixels 0 ↦ 2.5, 5 ↦ 7.0, 21 ↦ 0.25, 100 ↦ -3.0 -/
def exFloat : Except Err MapObj := do
  let m ← apiMakeEmpty 0 2 (.plain (.flt 64)) none [3]
  apiUpdate m "replace" [0, 5, 21, 100] (some [.num 5 1, .num 7 0, .num 1 2, .num (-3) 0]) false

def isErr {α : Type} (r : Except Err α) (e : Err) : Bool :=
  match r with
  | .error e' => e' == e
  | .ok _ => false

/-- (1) `upgrade` of the int16 map by one order: `Ok`, kind int16 and the sentinel 7 kept, coverage
    mask kept, every child reads its parent (value or the sentinel 7), the finer lookup agrees;
    errors: same or coarser order `ValueError` (also for a wide mask: the order check comes first),
    wide mask / bit-packed `NotImplementedError`; a record map is accepted -/
example : okAnd exInt16 (fun m => decide m.Ok && okAnd (apiUpgrade m 2) (fun u =>
      decide u.Ok && u.kind == m.kind && u.sent == .num 7 0 && u.spord == 2 && u.covord == 0 &&
      apiCovMask u == apiCovMask m &&
      (List.range 192).all (fun c => u.abs c == m.abs (c >>> 2)) &&
      u.abs 16 == .num 3 0 && u.abs 19 == .num 3 0 && u.abs 20 == .num (-2) 0 && u.abs 24 == .num 7 0 &&
      (match apiGet u [16, 23, 160], apiGet m [4, 5, 40] with
       | .ok a, .ok b => a == b | _, _ => false) &&
      isErr (apiGet u [192]) .index) &&
      isErr (apiUpgrade m 1) .value && isErr (apiUpgrade m 0) .value) = true ∧
    okAnd (apiMakeEmpty 0 1 (.wide 2) none []) (fun m =>
      isErr (apiUpgrade m 2) .notImpl && isErr (apiUpgrade m 1) .value) = true ∧
    okAnd (apiMakeEmpty 0 2 .packed none []) (fun m => isErr (apiUpgrade m 3) .notImpl) = true ∧
    okAnd (apiMakeEmpty 0 1 (.recd [.int 16 true, .flt 64] 0) none []) (fun m =>
      okAnd (apiUpgrade m 2) (fun u => decide u.Ok && u.kind == m.kind)) = true := by
  decide +kernel

/-- (2) `degrade ∘ upgrade` on the float64 map: mean, median, max, min give the map back —
    same kind, same sentinel, same value at EVERY pixel (`api_degrade_upgrade_roundtrip`) -/
example : okAnd exFloat (fun m => decide m.Ok && okAnd (apiUpgrade m 3) (fun u =>
      ["mean", "median", "max", "min"].all (fun red => okAnd (apiDegrade u 2 red none) (fun d =>
        d.kind == m.kind && d.sent == m.sent && d.covord == m.covord && d.spord == m.spord &&
        (List.range m.npix).all (fun q => d.abs q == m.abs q))))) = true := by
  decide +kernel

/-- (2) … on the int16 map with sentinel 7: the numbers come back, but in a FLOAT64 map with
    sentinel UNSEEN; an unset pixel reads UNSEEN, not 7.  `sum` gives `4·value` and turns the
    covered unset pixels 6 and 8 into VALID zeros; `prod` gives `value⁴` and ones; `std` gives
    `0.0` at every valid pixel (`api_degrade_upgrade_sum_prod_std`) -/
example : okAnd exInt16 (fun m => okAnd (apiUpgrade m 2) (fun u =>
      okAnd (apiDegrade u 1 "mean" none) (fun d =>
        d.kind == .plain (.flt 64) && d.sent == .num unseen64 0 &&
        d.abs 4 == .num 3 0 && d.abs 5 == .num (-2) 0 && d.abs 40 == .num 9 0 &&
        d.abs 6 == .num unseen64 0 && m.abs 6 == .num 7 0 && d.abs 0 == .num unseen64 0) &&
      okAnd (apiDegrade u 1 "sum" none) (fun d =>
        d.abs 4 == .num 12 0 && d.abs 5 == .num (-8) 0 && d.abs 6 == .num 0 0 &&
        d.vc.valid (d.abs 6) && !m.vc.valid (m.abs 6) && d.abs 8 == .num 0 0 &&
        d.abs 0 == .num unseen64 0) &&
      okAnd (apiDegrade u 1 "prod" none) (fun d =>
        d.abs 4 == .num 81 0 && d.abs 5 == .num 16 0 && d.abs 6 == .num 1 0) &&
      okAnd (apiDegrade u 1 "std" none) (fun d =>
        d.abs 4 == .num 0 0 && d.vc.valid (d.abs 4) && d.abs 6 == .num unseen64 0))) = true := by
  decide +kernel

/-- (3) the fracdet maps of the float64 map (`spord = 2`): at order 1 pixels 0, 1, 5 hold `1/4`
    and the covered empty ones `0.0` (NOT valid); at order 0 (= coverage order) pixel 0 holds
    `2/16 = 1/8`, pixels 1 and 6 `1/16`, and `coverage_map·nfine` is `[2, 1, 0, …, 1, …]`; at
    order 2 the indicator of validity; all three are `Ok` with the coverage mask of `m`
    (coverage pixel 3 is covered and reads `0.0`) -/
example : okAnd exFloat (fun m => decide m.WF && decide m.BlankInvalid &&
      decide (fracdetMap m 1).Ok && decide (fracdetMap m 0).Ok && decide (fracdetMap m 2).Ok &&
      apiCovMask (fracdetMap m 1) == apiCovMask m &&
      (fracdetMap m 1).abs 0 == .num 1 2 && (fracdetMap m 1).abs 1 == .num 1 2 &&
      (fracdetMap m 1).abs 5 == .num 1 2 && (fracdetMap m 1).abs 2 == .num 0 0 &&
      !(fracdetMap m 1).vc.valid ((fracdetMap m 1).abs 2) && (fracdetMap m 1).abs 12 == .num 0 0 &&
      (fracdetMap m 0).abs 0 == .num 1 3 && (fracdetMap m 0).abs 1 == .num 1 4 &&
      (fracdetMap m 0).abs 6 == .num 1 4 && (fracdetMap m 0).abs 3 == .num 0 0 &&
      decide ((coverageCounts m.c m.vc m.st).take 7 = [2, 1, 0, 0, 0, 0, 1]) &&
      (fracdetMap m 2).abs 5 == .num 1 0 && (fracdetMap m 2).abs 6 == .num 0 0 &&
      decide (fracCount m 0 0 = 2) && decide (fracCount m 1 0 = 1) && decide (fracCount m 1 1 = 1)) = true := by
  decide +kernel

/-- (3) **COUNTEREXAMPLE to the docstring of `fracdet_map`** ("to get a fracdet_map at a lower
    resolution, use the degrade method with the default mean reduction"): degrading the order-1
    fracdet map of the float64 map to order 0 gives `1/4` at pixels 0, 1 and 6, where the fracdet
    map at order 0 holds `1/8`, `1/16`, `1/16`; and UNSEEN (sentinel UNSEEN) where it holds `0.0` -/
example : okAnd exFloat (fun m => okAnd (apiDegrade (fracdetMap m 1) 0 "mean" none) (fun d =>
      d.abs 0 == .num 1 2 && (fracdetMap m 0).abs 0 == .num 1 3 &&
      d.abs 1 == .num 1 2 && (fracdetMap m 0).abs 1 == .num 1 4 &&
      d.abs 6 == .num 1 2 && (fracdetMap m 0).abs 6 == .num 1 4 &&
      d.abs 3 == .num unseen64 0 && (fracdetMap m 0).abs 3 == .num 0 0 &&
      d.sent == .num unseen64 0)) = true := by
  decide +kernel

/-- (3) … while it agrees where every child is non-empty (`api_degrade_fracdet_partial`): a map
    with one valid pixel in each of the four order-1 children of order-0 pixel 0 -/
example : okAnd (do let m ← apiMakeEmpty 0 2 (.plain (.flt 64)) none []
                    apiUpdate m "replace" [0, 4, 9, 15] (some [.num 1 0]) true) (fun m =>
      okAnd (apiDegrade (fracdetMap m 1) 0 "mean" none) (fun d =>
        d.abs 0 == .num 1 2 && (fracdetMap m 0).abs 0 == .num 1 2 &&
        (List.range 4).all (fun i => decide (0 < fracCount m 1 i)))) = true := by
  decide +kernel

/-- (4) the proviso of `api_degrade_valid_iff` is needed: a float64 map with sentinel `0.0` holding
    UNSEEN as a VALID value at pixel 0: the fracdet map is positive at coarse pixel 0 (`1/4`), the
    degraded (mean) map holds UNSEEN there — its own sentinel — and is not valid; on the float64
    map above the two agree everywhere -/
example : okAnd (do let m ← apiMakeEmpty 0 1 (.plain (.flt 64)) (some (.num 0 0)) []
                    apiUpdate m "replace" [0] (some [.num unseen64 0]) false) (fun m =>
      decide m.Ok && m.vc.valid (m.abs 0) && (fracdetMap m 0).abs 0 == .num 1 2 &&
      okAnd (apiDegrade m 0 "mean" none) (fun d =>
        d.abs 0 == .num unseen64 0 && !d.vc.valid (d.abs 0))) = true ∧
    okAnd exFloat (fun m => okAnd (apiDegrade m 1 "mean" none) (fun d =>
      (List.range 48).all (fun q =>
        d.vc.valid (d.abs q) == (fracdetMap m 1).vc.valid ((fracdetMap m 1).abs q)))) = true := by
  decide +kernel

/-! the protocol driver (evaluated): `upg`, `deg`, `fracdet`, `covmap`, finer lookup `get … nsord=` -/

def resBase : List String :=
  ["cfg m kind=plain dtype=f8 covord=0 spord=2 covpix=3", "upd m pix=0,5,21,100 vals=5^1,7,1^2,-3"]

def resAns (h : List String) (q : String) : String := (step (runLines h) q).2

#guard resAns (resBase ++ ["upg m ord=3 r=u"]) "get u pix=0,3,4,20,23,84,400"
    == resAns resBase "get m pix=0,3,4,20,23,84,400 nsord=3"
#guard resAns (resBase ++ ["upg m ord=3 r=u", "deg u ord=2 red=mean r=d"]) "dump d" == resAns resBase "dump m"
#guard resAns resBase "upg m ord=2 r=u" == "err ValueError"
#guard resAns (resBase ++ ["fracdet m r=f ord=0"]) "get f pix=0,1,2,3,6" == "1^3,1^4,0,0,1^4"
#guard resAns resBase "covmap m" == "2,1,0,0,0,0,1,0,0,0,0,0"
#guard resAns (resBase ++ ["fracdet m r=f ord=0"]) "valid f" == "0,1,6"
#guard resAns (resBase ++ ["fracdet m r=f ord=1", "deg f ord=0 red=mean r=g"]) "get g pix=0,1,6" == "1^2,1^2,1^2"
#guard resAns resBase "fracdet m r=f ord=3" == "err ValueError"

end C15
end HS
