/-
  Helper lemmas for the wide-mask bit-level facts (C13): bit characterisation of the
  packed byte, byte complement, `rowTestBit` through `zipWith`, non-zero byte ↔ some bit set.
-/
import HealSparse.Model.WideMask
namespace HS
namespace WideMask

/-- bit `j` of the byte built by the inner fold of `bitvalsToPacked` (generalised to `n` steps) -/
theorem foldByte_testBit (bits : List Nat) (i n j : Nat) :
    ((List.range n).foldl (fun acc j => if bits.contains (8 * i + j) then acc ||| (1 <<< j) else acc) 0).testBit j
      = (decide (j < n) && bits.contains (8 * i + j)) := by
  induction n with
  | zero => simp
  | succ n ih =>
    rw [List.range_succ, List.foldl_append]
    simp only [List.foldl_cons, List.foldl_nil]
    by_cases hjn : j = n
    · subst hjn
      split <;> rename_i h
      · rw [Nat.testBit_or, ih, Nat.one_shiftLeft, Nat.testBit_two_pow]; simpa using h
      · rw [ih]; simpa using h
    · have hd : decide (j < n + 1) = decide (j < n) := by
        apply decide_eq_decide.mpr; omega
      rw [hd]
      split
      · rw [Nat.testBit_or, ih, Nat.one_shiftLeft, Nat.testBit_two_pow]
        simp [Ne.symm hjn]
      · rw [ih]

theorem foldByte_lt (bits : List Nat) (i : Nat) :
    (List.range 8).foldl (fun acc j => if bits.contains (8 * i + j) then acc ||| (1 <<< j) else acc) 0 < 256 := by
  apply Nat.lt_pow_two_of_testBit (n := 8)
  intro j hj
  rw [foldByte_testBit]
  have : ¬ j < 8 := by omega
  simp [this]

/-- complement of a byte flips its low 8 bits -/
theorem byte_compl_testBit (x j : Nat) (hx : x < 256) (hj : j < 8) :
    (255 - x).testBit j = !x.testBit j := by
  have h : 255 - x = 2 ^ 8 - (x + 1) := by omega
  rw [h, Nat.testBit_two_pow_sub_succ (by omega)]
  simp [hj]

/-- a byte is non-zero iff one of its low 8 bits is set -/
theorem byte_ne_zero_iff (x : Nat) (hx : x < 256) :
    x ≠ 0 ↔ ∃ j, j < 8 ∧ x.testBit j = true := by
  constructor
  · intro h
    obtain ⟨j, hj⟩ := Nat.exists_testBit_of_ne_zero h
    refine ⟨j, ?_, hj⟩
    apply Classical.byContradiction
    intro hge
    have : x < 2 ^ j := Nat.lt_of_lt_of_le hx (by
      have : (2:Nat) ^ 8 ≤ 2 ^ j := Nat.pow_le_pow_right (by decide) (by omega)
      simpa using this)
    rw [Nat.testBit_lt_two_pow this] at hj
    cases hj
  · rintro ⟨j, _, hj⟩ h0
    subst h0
    simp at hj

/-! ### the packed row -/

theorem length_bitvalsToPacked (bits : List Nat) (m : Nat) :
    (bitvalsToPacked bits m).length = m / 8 := by
  simp [bitvalsToPacked]

theorem lt_of_mem_bitvalsToPacked (bits : List Nat) (m x : Nat) (hx : x ∈ bitvalsToPacked bits m) :
    x < 256 := by
  simp only [bitvalsToPacked, List.mem_map] at hx
  obtain ⟨i, _, rfl⟩ := hx
  exact foldByte_lt bits i

theorem getD_bitvalsToPacked (bits : List Nat) (m i : Nat) (hi : i < m / 8) :
    (bitvalsToPacked bits m).getD i 0 =
      (List.range 8).foldl (fun acc j => if bits.contains (8 * i + j) then acc ||| (1 <<< j) else acc) 0 := by
  simp [bitvalsToPacked, List.getD_eq_getElem?_getD, List.getElem?_map, List.getElem?_range hi]

theorem rowTestBit_bitvalsToPacked (bits : List Nat) (m b : Nat) (hb : b < 8 * (m / 8)) :
    rowTestBit (bitvalsToPacked bits m) b = bits.contains b := by
  have hi : b / 8 < m / 8 := by omega
  have hj : b % 8 < 8 := Nat.mod_lt _ (by decide)
  have hb' : 8 * (b / 8) + b % 8 = b := Nat.div_add_mod b 8
  unfold rowTestBit
  rw [getD_bitvalsToPacked bits m _ hi, foldByte_testBit, hb']
  simp [hj]

/-! ### `rowTestBit` through `zipWith` / `complBytes` -/

theorem getD_zipWith (f : Nat → Nat → Nat) (r p : List Nat) (i : Nat)
    (hr : i < r.length) (hp : i < p.length) :
    (List.zipWith f r p).getD i 0 = f (r.getD i 0) (p.getD i 0) := by
  simp [List.getD_eq_getElem?_getD, List.getElem?_zipWith, List.getElem?_eq_getElem hr,
    List.getElem?_eq_getElem hp]

theorem rowTestBit_zipWith (f : Nat → Nat → Nat) (g : Bool → Bool → Bool)
    (hf : ∀ x y j, (f x y).testBit j = g (x.testBit j) (y.testBit j))
    (r p : List Nat) (b : Nat) (hr : b / 8 < r.length) (hp : b / 8 < p.length) :
    rowTestBit (List.zipWith f r p) b = g (rowTestBit r b) (rowTestBit p b) := by
  unfold rowTestBit
  rw [getD_zipWith f r p _ hr hp, hf]

theorem length_complBytes (p : List Nat) : (complBytes p).length = p.length := by
  simp [complBytes]

theorem lt_of_mem_complBytes (p : List Nat) (x : Nat) (hx : x ∈ complBytes p) : x < 256 := by
  simp only [complBytes, List.mem_map] at hx
  obtain ⟨y, _, rfl⟩ := hx
  omega

theorem rowTestBit_complBytes (p : List Nat) (b : Nat) (hp : b / 8 < p.length)
    (hlt : ∀ x ∈ p, x < 256) :
    rowTestBit (complBytes p) b = !rowTestBit p b := by
  unfold rowTestBit complBytes
  have hj : b % 8 < 8 := Nat.mod_lt _ (by decide)
  have hx : p[b / 8] < 256 := hlt _ (List.getElem_mem hp)
  simp only [List.getD_eq_getElem?_getD, List.getElem?_map, List.getElem?_eq_getElem hp,
    Option.map_some, Option.getD_some]
  exact byte_compl_testBit _ _ hx hj

theorem lt_of_mem_zipWith (f : Nat → Nat → Nat) (r p : List Nat)
    (hf : ∀ x y, x < 256 → y < 256 → f x y < 256)
    (hr : ∀ x ∈ r, x < 256) (hp : ∀ x ∈ p, x < 256) :
    ∀ z ∈ List.zipWith f r p, z < 256 := by
  induction r generalizing p with
  | nil => simp
  | cons a r ih =>
    cases p with
    | nil => simp
    | cons c p =>
      intro z hz
      rw [List.zipWith_cons_cons, List.mem_cons] at hz
      rcases hz with rfl | hz
      · exact hf a c (hr a (by simp)) (hp c (by simp))
      · exact ih p (fun x hx => hr x (List.mem_cons_of_mem _ hx))
          (fun x hx => hp x (List.mem_cons_of_mem _ hx)) z hz

/-- a row of bytes has a non-zero byte iff some bit position `< 8 * length` is set -/
theorem any_ne_zero_eq (row : List Nat) (hlt : ∀ x ∈ row, x < 256) :
    row.any (· != 0) = (List.range (8 * row.length)).any (fun b => rowTestBit row b) := by
  rw [Bool.eq_iff_iff]
  simp only [List.any_eq_true, List.mem_range, bne_iff_ne]
  constructor
  · rintro ⟨x, hx, hne⟩
    obtain ⟨i, hi, rfl⟩ := List.getElem_of_mem hx
    obtain ⟨j, hj, hbit⟩ := (byte_ne_zero_iff _ (hlt _ hx)).mp hne
    refine ⟨8 * i + j, by omega, ?_⟩
    unfold rowTestBit
    have h1 : (8 * i + j) / 8 = i := by omega
    have h2 : (8 * i + j) % 8 = j := by omega
    rw [h1, h2]
    simpa [List.getD_eq_getElem?_getD, List.getElem?_eq_getElem hi] using hbit
  · rintro ⟨b, hb, hbit⟩
    have hi : b / 8 < row.length := by omega
    unfold rowTestBit at hbit
    simp only [List.getD_eq_getElem?_getD, List.getElem?_eq_getElem hi, Option.getD_some] at hbit
    refine ⟨row[b / 8], List.getElem_mem hi, ?_⟩
    intro h0
    rw [h0] at hbit
    simp at hbit

/-! ### `foldl max` is an upper bound -/

theorem init_le_foldl_max (l : List Nat) (a : Nat) : a ≤ l.foldl max a := by
  induction l generalizing a with
  | nil => simp
  | cons x l ih =>
    rw [List.foldl_cons]
    exact Nat.le_trans (Nat.le_max_left a x) (ih _)

theorem le_foldl_max (l : List Nat) (a b : Nat) (hb : b ∈ l) : b ≤ l.foldl max a := by
  induction l generalizing a with
  | nil => cases hb
  | cons x l ih =>
    rw [List.foldl_cons]
    rcases List.mem_cons.mp hb with rfl | h
    · exact Nat.le_trans (Nat.le_max_right a b) (init_le_foldl_max l _)
    · exact ih _ h

end WideMask
end HS
