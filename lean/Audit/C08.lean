import HealSparse.Props.C08
#print axioms HS.C08.expand_mem
#print axioms HS.C08.inv_updateRanges
#print axioms HS.C08.updateRanges_refines
#print axioms HS.C08.ranges_eq_explicit
#print axioms HS.C08.ranges_eq_explicit_pre_partial
#print axioms HS.C08.ranges_covered_superset
#print axioms HS.C08.expand_upgrade
